/-
  Property C05 — reported fields are contained, nested and ordered like the text they describe.

  Proved here (for ALL buffers within the 65,535-byte limit, offsets, flags, capacities and chunk schedules):
  * **body and raw-message layout** (`layout_one_call`, `layout_schedule_init`): after a successful ParseSIPMsg —
    one call on any legitimate object, or any chain of resumed calls over growing prefixes from an object produced
    by Init — the object is in its final state, the body starts exactly where ParseHeaders stopped (`h`) and ends at
    the returned offset, `Buf` is the buffer up to the returned offset, and the raw-message view is exactly the
    bytes from the start offset (the offset given to the first call) to the returned offset:
    `start ≤ h ≤ o' ≤ len(buf)`, `body = [h, o')`, `RawMsg = [start, o')`, `len(Buf) = o'`.
  * **containment in the consumed region, upper bound** (`fields_inside_consumed`, `fields_inside_consumed_schedule_init`,
    `consumed_meaning`): after a successful ParseSIPMsg — one call on any legitimate object, or any chain of resumed
    calls from Init — EVERY reported field ends at or before the returned offset: the five first-line fields, name and
    value of every stored header and of every first-of-type shortcut, From / To (name, URI, tag, parameters, value),
    Call-ID, the CSeq number / method / value, the Content-Length and Expires digit strings, every stored contact and
    identity value (all their sub-fields) and the running header value of the Contact / PAI lines, and the body.
  * **containment in the buffer** (`fields_inside_buffer`): whatever the verdict, every reported field (first line,
    all header slots, shortcuts, header values, contacts, identities, body) lies inside the buffer of the call
    (this is the C04 theorem; restated because callers slice the buffer with these fields).
  * **first-line order** for well-formed first lines: `first_line_order_request` / `_reply` (from the C08
    specification theorems: method < URI < version, resp. version < status code < reason, each exactly the token
    of the text).
  * **lower bound, order, own line** (`Sipsp.Proofs.FieldsLo`, re-exported below): every field starts at or after the
    message start (one call, Init, every schedule), first-line order, header name / value inside their own line,
    stored headers in buffer order without overlap, first line before headers, everything before the body, CSeq
    nesting.
  * **nesting of the name-addr sub-fields, for EVERY input** (`Sipsp.Proofs.NaNest`): `nameaddr_nested`,
    `nameaddr_nested_new`, `nameaddr_nested_meaning`: after ParseNameAddrPVal returns OK / "more values" (a parse
    started on a new object and continued over any objects returned with MoreBytes) the URI lies inside the value V
    (for `*` it is V), the display name is unset or starts at or after V's start and ends at or before the URI, the
    parameter span is unset or starts at or after the URI end and ends exactly where V ends, the tag is unset or lies
    inside the parameter span; `msg_values_nested`, `msg_values_nested_init`, `msg_values_nested_schedule_init`,
    `msg_values_nested_meaning`: after a successful ParseSIPMsg (one call, Init object, every chunk schedule) this
    holds for From, To and every stored Contact / P-Asserted-Identity value.
  * **shortcut values = the value of their first stored header, for EVERY input** (`Sipsp.Proofs.SigCovered`):
    `shortcut_eq_first_header`, `shortcut_values_eq(_init)(_schedule_init)`: after a successful ParseSIPMsg (any
    history, any chunk schedule), for From, To, Call-ID, CSeq, Content-Length and Expires: if `j` is the first stored
    header of that type then the shortcut object is parsed and `Hdrs[j].Val` EQUALS the shortcut's reported span
    (`From.V`, `To.V`, `Callid.CallID`, `CSeq.V`, `CLen.SVal`, `Expires.SVal`) — exact equality, no weakening needed (a
    repeated From is scanned generically and never touches the shortcut); `shortcut_parsed_of_flag` (type flag set ⇒
    shortcut parsed, also when the array was too small to store the header); `contact_values_inside_header_line`: for
    one Contact line the header's `Val` is the running extent and every value stored from that line lies inside it.
  * **every stored Contact / identity value inside the value of the header line it came from, for EVERY input**
    (`Sipsp.Proofs.PaiLines`): `values_in_headers_init`, `values_in_headers_schedule_init`, `values_in_headers_meaning`:
    after a successful ParseSIPMsg (one call from Init, any capacities; every chain of resumed calls over growing
    prefixes) there is a monotone map from stored Contact values to counted header lines such that, whenever that
    header is itself stored, it has type Contact, and the value's V is non-empty and lies inside that header's Val;
    the same for P-Asserted-Identity. `value_nonempty` removes the "empty V" exception of the per-line statement.
  EXACTLY which header line each stored value belongs to (`Sipsp.Proofs.HnoExact`, every input, any capacities, one call
  and every chunk schedule from Init): `values_exact_init`, `values_exact_schedule_init`, `parseHeaders(_init)` give
  `HxAssoc` for the Contact list and the identity list — the accepted lines of the type, in message order, are `HNo` in
  number, each contributes at least one value, the counts sum to N, and the values with indices in the i-th cumulative
  block are non-empty and lie inside the Val of the i-th line (`assoc_meaning_all_stored`: when all headers are stored
  the lines are the stored headers of that type; `assoc_value_line`, `block_exists`, `block_unique`: every value has
  exactly one line); `cseq_number_before_method(_init / _schedule_init)`, `parseCSeqVal_strict`: the CSeq number ends
  strictly before the method starts, both non-empty; `value_last_byte`, `value_last_byte_ok`, `params_last_byte`,
  `msg_trim_init`, `msg_trim_schedule_init`: V and the parameter span never end with SP / HT / CR / LF, the ONE exception
  being the verdict "more values" with a white-space run directly after `;` or `=` before the comma (`<a>;tag= ,<b>`).
  NOT proved: that a Contact header's Val starts with its first value and ends with its last (containment only);
  leading / inner white space of the spans; the `first` / `last` overflow slots of the contact list.
  SCOPE NOTES after the second sceptical review (tools/agent_prompts/AB1_audit_new.txt; nothing false was found, these
  sentences were too generous):
  * every `_init` theorem of this file takes the object of `Init` over ZERO-VALUED caller arrays (new or cleared; Go's
    Init does not clear them and a stale finished slot does change the parse — pinned by tests); "any capacity" stands.
  * `values_in_headers_*` (PaiLines, `PlAssoc`): the line index of a value is existentially quantified and only constrained
    for STORED headers, so the statement carries content when all header lines were stored (`hl.n ≤` capacity); once the
    header array overflows it is satisfied trivially. The `HxAssoc` form (`values_exact_*`, HnoExact) is the one to read:
    exact for stored values and stored headers — the counts `cnt` are existential (not shown unique) and the type of a
    line that was not stored is a ghost function; `assoc_value_line` gives existence of the line, not uniqueness.
  * "trimming": proved is only that the LAST byte of V (and of the parameter span) is not SP / HT / CR / LF, with the one
    exception stated; nothing is claimed about Name, URI, Tag or leading white space (a display name `"A B"  <…>` does end
    with blanks, in the model and in Go).
  * `msg_trim_schedule_init` speaks about SOME buffer of the schedule (`∃ b ∈ l`), not explicitly the last one.
  STRENGTHENED afterwards (`Sipsp.Proofs.AuditFixC`): `values_pinned_init`, `values_pinned_schedule_init`, `values_pinned_last`
  — the list of ALL accepted header lines is a function of the input (`afcMsgLines`, shown to be the lines of the text:
  `pinned_lines_are_the_text`); the lines of the list's type are exactly HNo many, one count ≥ 1 per line summing to N, the
  values of the i-th such line form the i-th cumulative block, and every stored value lies inside the Val of ITS line
  whether or not that line was stored — no constant map satisfies this when the header array overflows (refuted by
  evaluation for capacities 1 / 4); it implies both older forms (`pinned_implies_in_headers`); `msg_trim_last` names the
  last buffer. `counts_unique`, `msg_counts_unique`, `contact_counts_exists_unique_init` (`Sipsp.Proofs.Leftovers2`): the
  per-line counts are UNIQUE when every line of the type and every value is stored; they are genuinely not unique once
  values are dropped (capacity 1, three values on two lines: `[1,2]` and `[2,1]` both fit).
-/
import Sipsp.Proofs.Layout
import Sipsp.Properties.C01
import Sipsp.Properties.C08
import Sipsp.Proofs.FieldsLo
import Sipsp.Proofs.NaNest
import Sipsp.Proofs.SigCovered
import Sipsp.Proofs.PaiLines
import Sipsp.Proofs.HnoExact
import Sipsp.Proofs.AuditFixC
import Sipsp.Proofs.Leftovers2

namespace Sipsp.C05
open Sipsp

/-- **layout after one successful call** -/
theorem layout_one_call (b : Buf) (o : Nat) (m : PSIPMsg) (flags : Nat) (hfit : b.size ≤ 65535)
    (hok : msgOK2 b o m) (H : MsgSafe b o m) {o' : Nat} {m' : PSIPMsg}
    (hr : parseSIPMsg b o m flags = (o', .ok, m')) :
    ∃ h, (if m.state = .init then o else m.offs) ≤ h ∧ h ≤ o' ∧ o' ≤ b.size ∧
      MsgLayout m' (if m.state = .init then o else m.offs) h o' := parseSIPMsg_layout b o m flags hfit hok H hr

/-- what the layout record says, spelled out -/
theorem layout_meaning (m : PSIPMsg) (s h e : Nat) (L : MsgLayout m s h e) :
    m.state = .fin ∧ m.body.offs = h ∧ m.body.offs + m.body.len = e ∧ m.bufLen = e ∧ m.rawOffs = s ∧
    m.rawOffs + m.rawLen = e ∧ m.offs = s := ⟨L.state, L.bodyOffs, L.bodyEnd, L.bufLen, L.rawOffs, L.rawEnd, L.offs⟩

theorem oneShotRun_mem {σ : Type} (P : Parser σ) (o : Nat) (st : σ) (l : List Buf) (hne : l ≠ []) :
    ∃ b ∈ l, oneShotRun P o st l = P b o st := by
  induction l with
  | nil => exact absurd rfl hne
  | cons b rest ih =>
    cases rest with
    | nil => exact ⟨b, List.mem_cons_self, rfl⟩
    | cons b' rest' =>
      simp only [oneShotRun]
      rcases hp : P b o st with ⟨o1, e1, s1⟩
      have hdone : e1 ≠ .moreBytes → ∃ x ∈ b :: b' :: rest', (o1, e1, s1) = P x o st :=
        fun _ => ⟨b, List.mem_cons_self, hp.symm⟩
      cases e1 <;> simp only <;> try exact hdone (by decide)
      obtain ⟨x, hx, hq⟩ := ih (by simp)
      exact ⟨x, List.mem_cons_of_mem _ hx, hq⟩

/-- **layout under every chunk schedule, from Init**: if the chain of resumed calls ends with OK, the final object
    has the layout of the message relative to the offset the first call was given -/
theorem layout_schedule_init (flags : Nat) (o : Nat) (m0 : PSIPMsg) (len kh kc : Nat) (hdrs cts : Option Unit)
    (l : List Buf) (hg : Growing l) (hfit : ∀ x ∈ l, x.size ≤ 65535) (hne : l ≠ []) (ho : ∀ b ∈ l, o ≤ b.size)
    {o' : Nat} {m' : PSIPMsg}
    (hr : resumeRun (C01.msgP flags) o
      (m0.init len (hdrs.map fun _ => Array.replicate kh {}) (cts.map fun _ => Array.replicate kc {})) l = (o', .ok, m')) :
    ∃ b ∈ l, ∃ h, o ≤ h ∧ h ≤ o' ∧ o' ≤ b.size ∧ MsgLayout m' o h o' := by
  have h0 : ∀ b ∈ l.head?, o ≤ b.size := by
    intro b hb
    cases l with
    | nil => cases hb
    | cons x xs => simp at hb; subst hb; exact ho _ List.mem_cons_self
  have hrr := C01.schedule_msg_init flags o m0 len kh kc hdrs cts l hg hfit h0
  simp only at hrr
  have hv : (oneShotRun (C01.msgP flags) o
      (m0.init len (hdrs.map fun _ => Array.replicate kh {}) (cts.map fun _ => Array.replicate kc {})) l).2.1 = .ok := by
    rw [← hrr.2.1, hr]
  have heq := hrr.eq (Or.inl hv)
  obtain ⟨b, hb, hone⟩ := oneShotRun_mem (C01.msgP flags) o
    (m0.init len (hdrs.map fun _ => Array.replicate kh {}) (cts.map fun _ => Array.replicate kc {})) l hne
  rw [heq, hone] at hr
  have hl := parseSIPMsg_layout b o _ flags (hfit b hb) (msgOK2_init b o (ho b hb) m0 len kh kc hdrs cts)
    (MsgSafe_init b o (ho b hb) m0 len kh kc hdrs cts) hr
  have hinit : (m0.init len (hdrs.map fun _ => Array.replicate kh {}) (cts.map fun _ => Array.replicate kc {})).state
      = .init := rfl
  simp only [hinit, ↓reduceIte] at hl
  obtain ⟨h, h1, h2, h3, h4⟩ := hl
  exact ⟨b, hb, h, h1, h2, h3, h4⟩

/-- **every reported field lies inside the consumed region (upper bound), one call** -/
theorem fields_inside_consumed (b : Buf) (o : Nat) (m : PSIPMsg) (flags : Nat) (hfit : b.size ≤ 65535)
    (hok : msgOK2 b o m) (H : MsgSafe b o m) {o' : Nat} {m' : PSIPMsg}
    (hr : parseSIPMsg b o m flags = (o', .ok, m')) : MsgRelIn b o' m' ∧ m'.body.inside o' := by
  have hT := parseSIPMsg_safe b o m flags hfit hok H
  rw [hr] at hT
  exact hT.inn rfl

/-- … under every chunk schedule, from Init -/
theorem fields_inside_consumed_schedule_init (flags : Nat) (o : Nat) (m0 : PSIPMsg) (len kh kc : Nat)
    (hdrs cts : Option Unit) (l : List Buf) (hg : Growing l) (hfit : ∀ x ∈ l, x.size ≤ 65535) (hne : l ≠ [])
    (ho : ∀ b ∈ l, o ≤ b.size) {o' : Nat} {m' : PSIPMsg}
    (hr : resumeRun (C01.msgP flags) o
      (m0.init len (hdrs.map fun _ => Array.replicate kh {}) (cts.map fun _ => Array.replicate kc {})) l = (o', .ok, m')) :
    ∃ b ∈ l, MsgRelIn b o' m' ∧ m'.body.inside o' := by
  have h0 : ∀ b ∈ l.head?, o ≤ b.size := by
    intro b hb
    cases l with
    | nil => cases hb
    | cons x xs => simp at hb; subst hb; exact ho _ List.mem_cons_self
  have hrr := C01.schedule_msg_init flags o m0 len kh kc hdrs cts l hg hfit h0
  simp only at hrr
  have hv : (oneShotRun (C01.msgP flags) o
      (m0.init len (hdrs.map fun _ => Array.replicate kh {}) (cts.map fun _ => Array.replicate kc {})) l).2.1 = .ok := by
    rw [← hrr.2.1, hr]
  have heq := hrr.eq (Or.inl hv)
  obtain ⟨b, hb, hone⟩ := oneShotRun_mem (C01.msgP flags) o
    (m0.init len (hdrs.map fun _ => Array.replicate kh {}) (cts.map fun _ => Array.replicate kc {})) l hne
  rw [heq, hone] at hr
  exact ⟨b, hb, fields_inside_consumed b o _ flags (hfit b hb) (msgOK2_init b o (ho b hb) m0 len kh kc hdrs cts)
    (MsgSafe_init b o (ho b hb) m0 len kh kc hdrs cts) hr⟩

/-- what `MsgRelIn b o' m'` says, field by field (`f.inside o'` is `f.offs + f.len ≤ o'`) -/
theorem consumed_meaning (b : Buf) (o' : Nat) (m : PSIPMsg) (h : MsgRelIn b o' m) :
    o' ≤ b.size ∧
    m.fl.method.inside o' ∧ m.fl.uri.inside o' ∧ m.fl.version.inside o' ∧ m.fl.statusCode.inside o' ∧
    m.fl.reason.inside o' ∧
    (∀ k, k < m.hl.n → k < m.hl.hdrs.size → m.hl.hdrs[k]!.name.inside o' ∧ m.hl.hdrs[k]!.val.inside o') ∧
    (∀ j, j < m.hl.h.size → m.hl.h[j]!.name.inside o' ∧ m.hl.h[j]!.val.inside o') ∧
    (m.pv.from_.name.inside o' ∧ m.pv.from_.uri.inside o' ∧ m.pv.from_.tag.inside o' ∧ m.pv.from_.params.inside o' ∧
      m.pv.from_.v.inside o') ∧
    (m.pv.to.name.inside o' ∧ m.pv.to.uri.inside o' ∧ m.pv.to.tag.inside o' ∧ m.pv.to.params.inside o' ∧
      m.pv.to.v.inside o') ∧
    m.pv.callid.callID.inside o' ∧
    (m.pv.cseq.cseq.inside o' ∧ m.pv.cseq.method.inside o' ∧ m.pv.cseq.v.inside o') ∧
    m.pv.clen.sVal.inside o' ∧ m.pv.expires.sVal.inside o' ∧
    m.pv.contacts.lastHVal.inside o' ∧
    (∀ k, k < m.pv.contacts.n → k < m.pv.contacts.vals.size →
      m.pv.contacts.vals[k]!.name.inside o' ∧ m.pv.contacts.vals[k]!.uri.inside o' ∧
      m.pv.contacts.vals[k]!.params.inside o' ∧ m.pv.contacts.vals[k]!.v.inside o') ∧
    m.pv.pais.lastHVal.inside o' ∧
    (∀ k, k < m.pv.pais.n → k < m.pv.pais.vals.size →
      m.pv.pais.vals[k]!.name.inside o' ∧ m.pv.pais.vals[k]!.uri.inside o' ∧ m.pv.pais.vals[k]!.v.inside o') :=
  ⟨h.fl.ho, h.fl.method, h.fl.uri, h.fl.version, h.fl.statusCode, h.fl.reason,
   (fun k h1 h2 => h.hl.stored k h1 h2), (fun j hj => h.hl.hI j hj),
   ⟨h.pv.from_.name, h.pv.from_.uri, h.pv.from_.tag, h.pv.from_.params, h.pv.from_.v⟩,
   ⟨h.pv.to.name, h.pv.to.uri, h.pv.to.tag, h.pv.to.params, h.pv.to.v⟩,
   h.pv.callid, h.pv.cseq, h.pv.clen, h.pv.expires, h.pv.contacts.lhv,
   (fun k h1 h2 => ⟨(h.pv.contacts.stored k h1 h2).name, (h.pv.contacts.stored k h1 h2).uri,
     (h.pv.contacts.stored k h1 h2).params, (h.pv.contacts.stored k h1 h2).v⟩),
   h.pv.pais.lhv,
   (fun k h1 h2 => ⟨(h.pv.pais.stored k h1 h2).name, (h.pv.pais.stored k h1 h2).uri, (h.pv.pais.stored k h1 h2).v⟩)⟩

/-- **every reported field lies inside the buffer, whatever the verdict** (restated from C04) -/
theorem fields_inside_buffer (b : Buf) (o : Nat) (m : PSIPMsg) (flags : Nat) (hfit : b.size ≤ 65535)
    (hok : msgOK2 b o m) (H : MsgSafe b o m) : MsgFine b (parseSIPMsg b o m flags).2.2 :=
  (parseSIPMsg_safe b o m flags hfit hok H).out

/-- **first-line fields appear in order** (request): for a first line `method SP uri SP version CRLF` made of
    tokens, the reported fields are exactly those tokens, disjoint and one after the other -/
theorem first_line_order_request (b : Buf) (o m u v e crl : Nat) (hfit : b.size ≤ 65535) (hlen : ¬ b.size - o < 14)
    (hnr : (bcPrefix sipVerSP (b.extract o (o + 8)).toList).2 = false)
    (hm : TokenRun b o m) (hm0 : o < m) (hsp1 : b[m]? = some 32)
    (hu : TokenRun b (m + 1) u) (hu0 : m + 1 < u) (hsp2 : b[u]? = some 32)
    (hv : TokenRun b (u + 1) v) (hv0 : u + 1 < v) {c : UInt8} (hend : b[v]? = some c) (hc : c = 13 ∨ c = 10)
    (heol : skipCRLF b v = (e, crl, .ok)) :
    let pl := (parseFLine b o {}).2.2
    o ≤ pl.method.offs ∧ pl.method.offs + pl.method.len < pl.uri.offs ∧
    pl.uri.offs + pl.uri.len < pl.version.offs ∧ pl.version.offs + pl.version.len = v := by
  rw [C08.request_line b o m u v e crl hfit hlen hnr hm hm0 hsp1 hu hu0 hsp2 hv hv0 hend hc heol]
  simp only
  omega

/-- … and for a status line `SIP/2.0 SP code SP reason CRLF` -/
theorem first_line_order_reply (b : Buf) (o v e crl l : Nat) (hfit : b.size ≤ 65535) (hlen : ¬ b.size - o < 14)
    (hpre : bcPrefix sipVerSP (b.extract o (o + 8)).toList = (l, true))
    {d0 d1 d2 : UInt8} (h0 : b[o + 8]? = some d0) (h1 : b[o + 9]? = some d1) (h2 : b[o + 10]? = some d2)
    (hd0 : isDigit d0 = true) (hd1 : isDigit d1 = true) (hd2 : isDigit d2 = true)
    (hsp : b[o + 11]? = some 32)
    (hr : LineRun b (o + 12) v) (hv0 : o + 12 ≤ v) {c : UInt8} (hend : b[v]? = some c) (hc : c = 13 ∨ c = 10)
    (heol : skipCRLF b v = (e, crl, .ok)) :
    let pl := (parseFLine b o {}).2.2
    o ≤ pl.version.offs ∧ pl.version.offs + pl.version.len < pl.statusCode.offs ∧
    pl.statusCode.offs + pl.statusCode.len < pl.reason.offs ∧ pl.reason.offs + pl.reason.len = v := by
  rw [C08.status_line b o v e crl l hfit hlen hpre h0 h1 h2 hd0 hd1 hd2 hsp hr hv0 hend hc heol]
  simp only
  omega

/-! ### non-vacuity -/
example : (parseSIPMsg C01.exMsg 0 C01.exInit 0).2.1 = Err.ok := by decide +kernel

/-! ### lower bounds, nesting and order for every input (Proofs/FieldsLo.lean) -/

/-- **lower bound, first line, resumption invariant**: every non-empty first-line field (and the one a suspended parse is extending) starts at or after the start offset `s`; holds for a new object and is kept by every call at an offset ≥ s, whatever the verdict (Proofs/FieldsLo.lean) -/
theorem first_line_lower_bound : type_of% @parseFLine_lo := @parseFLine_lo

/-- **first-line fields appear in order, for every input**: whenever ParseFLine returns OK the fields are method < URI < version or version < status < reason, separated, non-empty, the first at `o`, the last ending before the returned offset -/
theorem first_line_order : type_of% @parseFLine_order := @parseFLine_order

/-- **a header's name and value lie inside its own line**: name starts at the line start, is non-empty, the value (if any) starts after the name's end, both end at or before the returned offset -/
theorem header_line_own_line : type_of% @parseHdrLine_own_line := @parseHdrLine_own_line

/-- … the lower-bound half, including every typed header value object -/
theorem header_line_lower_bound : type_of% @parseHdrLine_lo := @parseHdrLine_lo

/-- **CSeq number and method lie inside the CSeq value**: `cseq.offs = v.offs`, cseq ends at or before the method, the method ends where the value ends -/
theorem cseq_nesting : type_of% @parseCSeqVal_lo := @parseCSeqVal_lo

/-- **stored headers appear in buffer order**: for j < k header j's name and value end at or before header k's name; every stored header and first-of-type shortcut starts at or after the block start -/
theorem headers_in_order : type_of% @parseHeaders_lo := @parseHeaders_lo

/-- … in the k, k+1 form -/
theorem headers_consecutive : type_of% @HlsLo.consecutive := @HlsLo.consecutive

/-- **every reported field of a message starts at or after the message start** (one call) -/
theorem msg_lower_bound : type_of% @parseSIPMsg_lo := @parseSIPMsg_lo

/-- … for an object produced by Init -/
theorem msg_lower_bound_init : type_of% @parseSIPMsg_lo_init := @parseSIPMsg_lo_init

/-- … for any chain of resumed calls from Init -/
theorem msg_lower_bound_schedule_init : type_of% @parseSIPMsg_lo_schedule_init := @parseSIPMsg_lo_schedule_init

/-- what `MsgLo` says, field by field -/
theorem msg_lower_bound_meaning : type_of% @MsgLo.meaning := @MsgLo.meaning

/-- **first line before headers**: the first line is in order from `o` and ends before some `o1`; every stored header, shortcut and header value starts at or after `o1` -/
theorem msg_order : type_of% @parseSIPMsg_ord := @parseSIPMsg_ord

/-- … for an object produced by Init -/
theorem msg_order_init : type_of% @parseSIPMsg_ord_init := @parseSIPMsg_ord_init

/-- … for any chain of resumed calls from Init -/
theorem msg_order_schedule_init : type_of% @parseSIPMsg_ord_schedule_init := @parseSIPMsg_ord_schedule_init

/-- **every first-line and header field ends at or before the start of the body** -/
theorem fields_before_body : type_of% @parseSIPMsg_before_body := @parseSIPMsg_before_body

/-- … for any chain of resumed calls from Init -/
theorem fields_before_body_schedule_init : type_of% @parseSIPMsg_before_body_schedule_init := @parseSIPMsg_before_body_schedule_init

/-! ### nesting of the name-addr sub-fields, every input (proved in `Sipsp.Proofs.NaNest`) -/

/-- **nesting theorem for ParseNameAddrPVal** (any header kind; buffers within the 65,535-byte limit): a parse of one
    value that started at `lo` on a new object — in one call, or continued over the objects returned with MoreBytes —
    and ends with OK or MoreValues leaves a value whose sub-fields are nested and ordered (`NaNest`) and which
    starts at or after `lo`; after MoreBytes the object is again a legitimate argument at the returned offset. -/
theorem nameaddr_nested : type_of% @Sipsp.parseNameAddrPVal_nest := @Sipsp.parseNameAddrPVal_nest

/-- one call on a new object (the form used by the callers that parse a value in one go) -/
theorem nameaddr_nested_new : type_of% @Sipsp.parseNameAddrPVal_nest_new := @Sipsp.parseNameAddrPVal_nest_new

/-- **`NaNest`, spelled out** (a field `[offs, offs+len)`; an unset field is `{}` = `⟨0,0⟩`):
    * the URI lies inside the value;
    * the display name, if reported, starts inside the value and ends at or before the start of the URI;
    * the parameter span, if reported, starts at or after the end of the URI, inside the value, and ends exactly
      where the value ends;
    * the tag, if reported, lies inside the parameter span (which is then reported), hence inside the value. -/
theorem nameaddr_nested_meaning : type_of% @Sipsp.NaNest.meaning := @Sipsp.NaNest.meaning

/-- **message, one call from the initial state** (same hypotheses as `parseSIPMsg_lo`): after a successful
    ParseSIPMsg the From and To values (if such headers were seen) and every stored Contact and
    P-Asserted-Identity value are nested -/
theorem msg_values_nested : type_of% @Sipsp.parseSIPMsg_nn := @Sipsp.parseSIPMsg_nn

/-- **message, one call on an object produced by Init** (any previous contents, caller arrays of any capacity or
    none; buffers within the 65,535-byte limit) -/
theorem msg_values_nested_init : type_of% @Sipsp.parseSIPMsg_nn_init := @Sipsp.parseSIPMsg_nn_init

/-- **message, under every chunk schedule, from Init**: if the chain of resumed calls over growing prefixes ends
    with OK, the name-addr header values of the final object are nested -/
theorem msg_values_nested_schedule_init : type_of% @Sipsp.parseSIPMsg_nn_schedule_init := @Sipsp.parseSIPMsg_nn_schedule_init

/-- **`HvNn`, spelled out** with `NaNest.meaning`: for From, To (unless untouched) and each stored Contact /
    P-Asserted-Identity value `p`: URI inside `p.v`; display name (if any) inside `p.v` and before the URI; parameter
    span (if any) after the URI, inside `p.v`, ending where `p.v` ends; tag (if any) inside the parameter span -/
theorem msg_values_nested_meaning : type_of% @Sipsp.HvNn.meaning := @Sipsp.HvNn.meaning

/-! ### shortcut values equal the value of their first stored header (proved in `Sipsp.Proofs.SigCovered`) -/

/-- **kind by kind**: in the object returned by a successful ParseSIPMsg call — after ANY history of the object it was
    called on (`SvParsed`), in particular after any chunk schedule from Init with any capacities; no size bound — if a
    header of the kind's type is stored, the shortcut object of the kind is parsed and the `val` of the FIRST stored
    header of that type EQUALS the span the shortcut object reports -/
theorem shortcut_eq_first_header : type_of% @Sipsp.shortcut_eq_first_header := @Sipsp.shortcut_eq_first_header

/-- **[C05] the six shortcut values, spelled out**: From, To, Call-ID, CSeq, Content-Length, Expires -/
theorem shortcut_values_eq : type_of% @Sipsp.shortcut_values_eq := @Sipsp.shortcut_values_eq

/-- … after the first call on an Init object -/
theorem shortcut_values_eq_init : type_of% @Sipsp.shortcut_values_eq_init := @Sipsp.shortcut_values_eq_init

/-- … after every chunk schedule from Init that ends with OK (any list of buffers) -/
theorem shortcut_values_eq_schedule_init : type_of% @Sipsp.shortcut_values_eq_schedule_init := @Sipsp.shortcut_values_eq_schedule_init

/-- a header of the kind's type was accepted (its type flag is set — also when the array was too small to store it):
    the shortcut object is parsed -/
theorem shortcut_parsed_of_flag : type_of% @Sipsp.shortcut_parsed_of_flag := @Sipsp.shortcut_parsed_of_flag

/-- **a Contact header line, header and values together**: for a header object of type Contact not in the middle of
    its value list and an idle value list object, if the dispatch ends with OK then the header's `val` is the running
    header value, the header count went up by one, and every value stored from this line lies inside `val` -/
theorem contact_values_inside_header_line : type_of% @Sipsp.svc_contact_header := @Sipsp.svc_contact_header

/-! ### where the headers stopped (proved in `Sipsp.Proofs.Layout`) -/

/-- layout of a successful message parse, relative to the header block the call (or an earlier call) finished:
    `∃ h`, the end of the header block, with `start ≤ … ≤ h ≤ o'` -/
theorem headers_end_is_body_start : type_of% @Sipsp.msgHeaders_layout := @Sipsp.msgHeaders_layout

/-! ### every stored Contact / identity value lies inside the value of the header line it came from (proved in `Sipsp.Proofs.PaiLines`) -/

/-- **[C05] message level, one call on an object produced by Init** (any previous contents, caller arrays of any
    capacity or none; EVERY input within the 65,535-byte limit) -/
theorem values_in_headers_init : type_of% @Sipsp.pl_values_in_headers_init := @Sipsp.pl_values_in_headers_init

/-- **[C05] … under every chunk schedule, from Init**: if the chain of resumed calls over growing prefixes ends with
    OK, the final object satisfies the same statement -/
theorem values_in_headers_schedule_init : type_of% @Sipsp.pl_values_in_headers_schedule_init := @Sipsp.pl_values_in_headers_schedule_init

/-- **`PlMsg`, spelled out**: there is a map `f` from value indices to header-line indices (`f k < HdrLst.N`), monotone
    on the values counted (`k ≤ k' < N` ⇒ `f k ≤ f k'`: values are associated with header lines in message order), such
    that for every stored Contact value `k` (`k < min (N, capacity)`), if header `f k` is stored (`f k` below the capacity
    of the header array) then header `f k` is a Contact header, the value's `V` has at least one byte, starts at or after
    the start of the header's `val` and ends at or before its end; likewise for the stored P-Asserted-Identity values -/
theorem values_in_headers_meaning : type_of% @Sipsp.PlMsg.meaning := @Sipsp.PlMsg.meaning

/-- **a completed name-addr value is never empty**: whenever ParseNameAddrPVal, started on a new object, says OK or
    "more values", the reported value span `V` has at least one byte — every header kind, EVERY input within the
    65,535-byte limit -/
theorem value_nonempty : type_of% @Sipsp.pn_value_nonempty := @Sipsp.pn_value_nonempty

/-! ### which header line each stored Contact / identity value belongs to (exactly), CSeq number strictly before the method, trimming of name-addr spans (proved in `Sipsp.Proofs.HnoExact`) -/

/-- **`HxAssoc`, when the header array holds all the headers** (`hl.n ≤` its capacity): let `idx` be the positions of the
    stored headers of type `ty`, in order.  Then `HNo` is the number of these headers, and there are counts `cnt` — one
    for each of them, each at least 1, with sum `N` — such that the values of the `i`-th header of type `ty` are exactly
    those with index in `[hxStart cnt i, hxStart cnt (i+1))` (cumulative counts): each of them that is stored has at
    least one byte and lies inside the `val` of THAT header; every value index below `N` is in exactly one of the blocks
    (`hx_block_exists`, `hx_block_unique`) -/
theorem assoc_meaning_all_stored : type_of% @Sipsp.HxAssoc.meaning_all_stored := @Sipsp.HxAssoc.meaning_all_stored

/-- **`HxAssoc`, any capacity of the header array**: the same with a ghost function `tyOf` for the types of ALL accepted
    header lines (it agrees with the stored ones); a value is compared with the `val` of its header only if that header
    is stored -/
theorem assoc_meaning : type_of% @Sipsp.HxAssoc.meaning := @Sipsp.HxAssoc.meaning

/-- **every stored value has its header line**: for each value index `k < N` there is exactly one line number `i < HNo`
    with `k` in the block of `i`; if the header array holds all headers, the `i`-th stored header of type `ty` exists
    and the value lies inside its `val` -/
theorem assoc_value_line : type_of% @Sipsp.HxAssoc.value_line := @Sipsp.HxAssoc.value_line

/-- every value index below the sum of the counts belongs to exactly one block of the cumulative counts -/
theorem block_exists : type_of% @Sipsp.hx_block_exists := @Sipsp.hx_block_exists

theorem block_unique : type_of% @Sipsp.hx_block_unique := @Sipsp.hx_block_unique

/-- **header block** (same hypotheses as `pl_parseHeaders`: a legitimate list whose current slot is new, i.e. one call
    of ParseHeaders from the start of a line; buffers within the 65,535-byte limit): ParseHeaders keeps / establishes
    the exact association -/
theorem parseHeaders : type_of% @Sipsp.hx_parseHeaders := @Sipsp.hx_parseHeaders

/-- **ParseHeaders, one call on the header list and values object of an Init object** -/
theorem parseHeaders_init : type_of% @Sipsp.hx_parseHeaders_init := @Sipsp.hx_parseHeaders_init

/-- **[C05] message level, one call on an object produced by Init** (any previous contents, caller arrays of any
    capacity or none; EVERY input within the 65,535-byte limit) -/
theorem values_exact_init : type_of% @Sipsp.hx_values_exact_init := @Sipsp.hx_values_exact_init

/-- **[C05] … under every chunk schedule, from Init**: if the chain of resumed calls over growing prefixes ends with
    OK, the final object satisfies the same statement -/
theorem values_exact_schedule_init : type_of% @Sipsp.hx_values_exact_schedule_init := @Sipsp.hx_values_exact_schedule_init

/-- **one accepted header line** (header object that has not reached the colon, in particular a new one; any buffer,
    any values object): the counters of the Contact list and of the identity list, relative to the type of the
    accepted header -/
theorem line_cnt : type_of% @Sipsp.hx_line_cnt := @Sipsp.hx_line_cnt

/-- **`cseq_number_before_method`, ParseCSeqVal**: whenever ParseCSeqVal says OK — on a new object, or on any object
    returned by earlier calls on the same buffer (`HxCsI`, which holds of every object in the initial state and is kept
    by every call that asks for more bytes) — the number field has at least one byte, ends STRICTLY before the start of
    the method field, and the method field has at least one byte.  Every input within the 65,535-byte limit. -/
theorem parseCSeqVal_strict : type_of% @Sipsp.hx_parseCSeqVal_strict := @Sipsp.hx_parseCSeqVal_strict

/-- one call on a new object -/
theorem parseCSeqVal_strict_new : type_of% @Sipsp.hx_parseCSeqVal_strict_new := @Sipsp.hx_parseCSeqVal_strict_new

/-- **`cseq_number_before_method`**: in a message object that satisfies `HxMsg` (every successful parse from Init, see
    below), if the CSeq object is parsed then the number field has at least one byte, ends STRICTLY before the start of
    the method field, and the method field has at least one byte -/
theorem cseq_number_before_method : type_of% @Sipsp.hx_cseq_number_before_method := @Sipsp.hx_cseq_number_before_method

/-- … one successful ParseSIPMsg call on an object produced by Init; "a CSeq header was accepted" = its type flag is set
    (also when the header array was too small to store it) -/
theorem cseq_number_before_method_init : type_of% @Sipsp.hx_cseq_number_before_method_init := @Sipsp.hx_cseq_number_before_method_init

/-- … every chain of resumed calls over growing prefixes, from Init -/
theorem cseq_number_before_method_schedule_init : type_of% @Sipsp.hx_cseq_number_before_method_schedule_init := @Sipsp.hx_cseq_number_before_method_schedule_init

/-- **the last byte of a reported name-addr value `V`** (ParseNameAddrPVal started on a new object, verdict OK or "more
    values", any header kind, EVERY input within the 65,535-byte limit): the byte before the end of `V` is not white
    space (SP, HT, CR, LF) — except in ONE shape: the verdict is "more values", the byte at the end of `V` is the comma,
    and `V` ends with a non-empty run of white space that directly follows a `;` (an empty parameter: `<a>; ,<b>`) or a
    `=` (an empty parameter value: `<a>;tag= ,<b>`).  After verdict OK (last value of a line, From / To) `V` never ends
    with white space. -/
theorem value_last_byte : type_of% @Sipsp.hx_value_last_byte := @Sipsp.hx_value_last_byte

/-- after verdict OK (the last value of a header line; From, To, …) the value never ends with white space -/
theorem value_last_byte_ok : type_of% @Sipsp.hx_value_last_byte_ok := @Sipsp.hx_value_last_byte_ok

/-- **the parameter span**: if reported, it ends exactly where `V` ends (`NaNest`), so the same statement holds for its
    last byte -/
theorem params_last_byte : type_of% @Sipsp.hx_params_last_byte := @Sipsp.hx_params_last_byte

/-- **[C05] trimming, message level, one call on an Init object**: after a successful ParseSIPMsg the From and To
    values (if parsed) do not end with white space; every stored Contact / identity value does not end with white
    space, except in the one shape of `HxTrC` (`; ,` / `= ,`) -/
theorem msg_trim_init : type_of% @Sipsp.hx_msg_trim_init := @Sipsp.hx_msg_trim_init

/-- … under every chunk schedule, from Init (the buffer is the one of the call that completed the message) -/
theorem msg_trim_schedule_init : type_of% @Sipsp.hx_msg_trim_schedule_init := @Sipsp.hx_msg_trim_schedule_init

/-- **any property of completed name-addr values holds of From, To and every stored Contact / identity value** after one
    successful ParseSIPMsg call on an object produced by Init -/
theorem msg_vals_init : type_of% @Sipsp.hx_msg_vals_init := @Sipsp.hx_msg_vals_init

/-- `HxTrC`, spelled out (`E` = the end of the span) -/
theorem trim_meaning : type_of% @Sipsp.HxTrC.meaning := @Sipsp.HxTrC.meaning

/-! ### the line of every stored value PINNED (the list of all accepted lines is a function of the input): not satisfiable by a constant map when the header array overflows (proved in `Sipsp.Proofs.AuditFixC`) -/

/-- **[C05] message level, one call on an object produced by Init, line index pinned** (any previous contents, caller
    arrays of any capacity or none; EVERY input within the 65,535-byte limit): with `gs` = the list of ALL accepted
    header lines (a function of the input), `AfcMsg gs m'` -/
theorem values_pinned_init : type_of% @Sipsp.afc_values_pinned_init := @Sipsp.afc_values_pinned_init

/-- **[C05] … under every chunk schedule, from Init**: if the chain of resumed calls over growing prefixes ends with
    OK, the final object is the object of ONE call on a buffer `b` of the schedule — a prefix of the last buffer `B`, so
    every span is a span of `B` with the same bytes — and satisfies the pinned statement relative to the accepted lines
    of `b` -/
theorem values_pinned_schedule_init : type_of% @Sipsp.afc_values_pinned_schedule_init := @Sipsp.afc_values_pinned_schedule_init

/-- **[C05] the pinned statement under every chunk schedule from Init, on the LAST buffer `B` of the schedule**
    (`l.getLast? = some B`): if the chain of resumed calls over growing prefixes ends with OK, the final object satisfies
    `AfcMsg` relative to the accepted header lines of `B` itself -/
theorem values_pinned_last : type_of% @Sipsp.afc_values_pinned_last := @Sipsp.afc_values_pinned_last

/-- **header block** (same hypotheses as `hx_parseHeaders`): `gs0` = the lines accepted before the call; after OK the
    lines are `gs0 ++ afcTrace …`, the stored headers are entries of that list, and both value lists are associated
    with it -/
theorem values_pinned_headers : type_of% @Sipsp.afc_parseHeaders := @Sipsp.afc_parseHeaders

/-- **message, one call from the initial state** (same hypotheses as `hx_parseSIPMsg`; no header counted yet) -/
theorem values_pinned_msg : type_of% @Sipsp.afc_parseSIPMsg := @Sipsp.afc_parseSIPMsg

/-- **message from Init**: the list `afcMsgLines` is a chain of lines of the header block — it starts where the first line
    ends, every entry has the name as written and the type of that name — and the header list of the final object is
    what accepting exactly these entries, in order, produces -/
theorem pinned_lines_are_the_text : type_of% @Sipsp.afc_msgLines_chain := @Sipsp.afc_msgLines_chain

/-- a message parsed with OK has the same accepted header lines in every extension of the buffer -/
theorem pinned_lines_stable : type_of% @Sipsp.afc_msgLines_app := @Sipsp.afc_msgLines_app

/-- **`AfcMsg`, spelled out for the Contact values** (the identities: the same with `pais`): `gs` has one entry per counted
    header line, the stored headers are entries of `gs`, and there is a monotone map `f` into the positions of `gs` with:
    line `f k` is a Contact line; stored value `k` has at least one byte and lies inside the `val` of line `f k`, stored
    or not; every Contact line is hit; and `HNo` is the number of Contact lines in `gs` -/
theorem pinned_meaning : type_of% @Sipsp.AfcMsg.meaning := @Sipsp.AfcMsg.meaning

theorem pinned_implies_in_headers : type_of% @Sipsp.AfcMsg.plMsg := @Sipsp.AfcMsg.plMsg

/-- **`AfcAssoc`, the map form**: there is a map `f` from the values counted to the positions in `gs` (ALL accepted
    lines), monotone (values are associated with lines in message order), such that line `f k` has the type of the
    list and — whether or not that line is stored in the header array — every stored value `k` has at least one byte
    and lies inside the `val` of line `f k`; every line of the type is the line of some value -/
theorem pinned_assoc_map : type_of% @Sipsp.AfcAssoc.map := @Sipsp.AfcAssoc.map

/-- **[C05] trimming under every chunk schedule from Init, stated on the last buffer `B` of the schedule**: if the chain
    ends with OK, then — reading the bytes in `B` — the From and To values (if parsed) do not end with white space,
    every stored Contact / identity value does not end with white space except in the one shape of `HxTrC`; the
    message is complete and `len(msg.Buf)` = the returned offset `≤ len(B)` -/
theorem msg_trim_last : type_of% @Sipsp.afc_msg_trim_last := @Sipsp.afc_msg_trim_last

/-! ### the per-line counts are unique when every line and every value is stored (proved in `Sipsp.Proofs.Leftovers2`) -/

/-- **the counts of `AfcAssoc` are unique** when the `val` spans of the lines do not overlap and every value counted is
    stored (`n ≤ vals.size`): two count lists that satisfy the conjuncts of `AfcAssoc` for the same object are equal -/
theorem counts_unique : type_of% @Sipsp.lo2_counts_unique := @Sipsp.lo2_counts_unique

/-- **message level**: for an object that satisfies the pinned statement `AfcMsg gs m` and the order facts `HlsLo`
    (both proved for every successful ParseSIPMsg from Init: `afc_values_pinned_init`, `parseSIPMsg_lo_init`), with every
    accepted header line stored and every contact (resp. identity) value stored, the per-line counts are determined -/
theorem msg_counts_unique : type_of% @Sipsp.lo2_msg_counts_unique := @Sipsp.lo2_msg_counts_unique

/-- **one ParseSIPMsg call from Init, OK, nothing dropped from the header array nor from the contact array**: there is
    EXACTLY ONE list of per-line counts for the contact values (existence: `afc_values_pinned_init`) -/
theorem contact_counts_exists_unique_init : type_of% @Sipsp.lo2_contact_counts_exists_unique_init := @Sipsp.lo2_contact_counts_exists_unique_init

end Sipsp.C05
