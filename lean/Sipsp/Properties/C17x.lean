/-
  Property C17 - extension file: theorems of this property that are proved in layers which themselves import
  Sipsp/Properties/C17.lean (message-level compositions, audit lemmas). Same namespace as the main file; the check
  audits both files together.
-/
import Sipsp.Properties.C17
import Sipsp.Proofs.AuditExamples

namespace Sipsp.C17
open Sipsp

/-! ### a reset list is fresh (the soundness theorems apply after Reset) (proved in `Sipsp.Proofs.AuditExamples`) -/

/-- Reset() of a clean URI parameter list is `Fresh`: the soundness theorems of Proofs/ParamSound apply after Reset -/
theorem params_reset_fresh : type_of% @Sipsp.ae_params_reset_fresh := @Sipsp.ae_params_reset_fresh

/-- Reset() of a clean URI header list is `Fresh` -/
theorem hdrs_reset_fresh : type_of% @Sipsp.ae_hdrs_reset_fresh := @Sipsp.ae_hdrs_reset_fresh

end Sipsp.C17
