/-
  Property C20 - extension file: theorems of this property that are proved in layers which themselves import
  Sipsp/Properties/C20.lean (message-level compositions, audit lemmas). Same namespace as the main file; the check
  audits both files together.

  IPv6 (`Sipsp.Proofs.IP6Spec`; NO listed property asks for it — C20 is about IPv4, C04 already gives panic-freedom —, this
  extends the proved behaviour of the model): `ip6_master_sound` / `ip6_master_complete`: for every buffer and start
  position IP6Prefix reads a well-formed scanner text `g` (groups of 1–4 hex digits, at most one "::", at most 7 colons
  without it and 8 with it) up to a byte where it cannot go on, and its whole result (accepted?, offset, verdict, the
  eight 16-bit words, no panic) is the one a ten-row decision table prescribes — and conversely for every such text;
  `ip6_accepts_iff`, `ip6_addr_accepted`, `ip6_bracketed_accepted`: exactly which texts are accepted, with value, length
  and verdict (Ok = end of input, MoreValues = a byte follows `]` / a fifth hex digit, BadChar = another byte, MoreBytes
  = `[`addr at the end of input); `ip6_reject_*`: every rejection with its offset; `ip6_contains_*`: ContainsIP6 reports a
  span iff IP6Prefix accepts at one of the positions it tries (the up-to-5 bytes before each colon), the first such.
  OBSERVED while proving (true of the Go code, reproduced; outside every listed property, so recorded, not repaired):
  an address with "::" and 8 colons that ends in a group and is followed by a ninth colon is accepted with its last group
  missing (`::2:3:4:5:6:7:8:` → 0:0:2:3:4:5:6:7; `ip6_value_cut_eq` proves the value right in all other cases); a single
  leading colon (`:1:2:3:4:5:6:7`), a trailing colon after the "::" part (`1::2:`) and `[::1` without the closing bracket
  are accepted; "::" may stand for zero groups (`1:2:3:4:5:6:7::8`); ContainsIP6 never tries a position at or after the
  first colon of a run, so a text STARTING with `::1` reports no address.
-/
import Sipsp.Properties.C20
import Sipsp.Proofs.AuditExamples
import Sipsp.Proofs.IP6Spec
import Sipsp.Proofs.Leftovers2

namespace Sipsp.C20
open Sipsp

/-! ### the returned address has four entries (proved in `Sipsp.Proofs.AuditExamples`) -/

/-- **C20**: a positive IP4Prefix returns an address array of exactly 4 entries -/
theorem ip4prefix_size : type_of% @Sipsp.ae_ip4Prefix_pos_size := @Sipsp.ae_ip4Prefix_pos_size

/-- **C20**: a positive ContainsIP4 returns an address array of exactly 4 entries -/
theorem containsip4_size : type_of% @Sipsp.ae_containsIP4_size := @Sipsp.ae_containsIP4_size

/-! ### IPv6 (beyond the listed properties): what IP6Prefix / ContainsIP6 accept, with which value, verdict and offset — sound and complete against a grammar of the text as the code reads it (proved in `Sipsp.Proofs.IP6Spec`) -/

/-- **characterisation of IP6Prefix (soundness)**: the scanner reads a text `g` from the start position up to a position
    where it stops, and the result is the one `I6Out` prescribes for that position and `g` -/
theorem ip6_master_sound : type_of% @Sipsp.i6_prefixAt_char := @Sipsp.i6_prefixAt_char

/-- **completeness of IP6Prefix**: whenever the bytes from the start position up to `o` are the text of some `g` of
    the grammar and the scanner cannot go on at `o`, the result is the one `I6Out` prescribes for `o`, `g` -/
theorem ip6_master_complete : type_of% @Sipsp.i6_prefixAt_complete := @Sipsp.i6_prefixAt_complete

/-- **soundness of IP6Prefix**: an accepting result comes with a complete address text `g` read from the start
    position (after the opening bracket, if any) up to the position where the scanner stopped; offset, verdict
    and value are those of `I6AccRes` -/
theorem ip6_accept_sound : type_of% @Sipsp.i6_prefixAt_sound := @Sipsp.i6_prefixAt_sound

/-- **IP6Prefix accepts exactly** the texts that begin (after an opening bracket that is followed by at least one byte)
    with a complete address text after which the scanner stops without rejecting, and which — inside brackets — is
    followed by the closing bracket or the end of the input -/
theorem ip6_accepts_iff : type_of% @Sipsp.i6_prefixAt_accepts_iff := @Sipsp.i6_prefixAt_accepts_iff

/-- **completeness for the usual notation**: an address followed by the end of the input is accepted with verdict Ok,
    followed by a byte that is neither a hex digit nor a colon with verdict BadChar; the offset is the length of the
    address and the words are its value -/
theorem ip6_addr_accepted : type_of% @Sipsp.i6_prefixAt_addr := @Sipsp.i6_prefixAt_addr

/-- **addresses in brackets**: `[` address `]` is accepted, the offset is past the closing bracket and the verdict
    is Ok at the end of the input, MoreValues when a byte follows; `[` address at the end of the input (closing
    bracket missing) is ALSO accepted, with verdict MoreBytes and the offset at the end -/
theorem ip6_bracketed_accepted : type_of% @Sipsp.i6_prefixAt_bracketed := @Sipsp.i6_prefixAt_bracketed

/-- IP6Prefix never gives the "Go would panic" indication (also proved, differently, in `SafeRest`) -/
theorem ip6_never_panics : type_of% @Sipsp.i6_prefixAt_nopanic := @Sipsp.i6_prefixAt_nopanic

/-- every address of the usual notation is a complete text of the scanner's grammar, with the same value, without
    a leading or trailing single colon -/
theorem ip6_notation_to_scanner : type_of% @Sipsp.I6Addr.toG := @Sipsp.I6Addr.toG

/-- conversely: a complete text of the scanner's grammar that has neither a leading nor a trailing single colon is an
    address of the usual notation, with the same value. So the texts accepted beyond the usual notation are exactly
    those with a single colon in front (read as an empty first group of value 0) or a single colon at the end of the
    part after "::" (ignored). -/
theorem ip6_scanner_to_notation : type_of% @Sipsp.I6G.toAddr := @Sipsp.I6G.toAddr

theorem ip6_contains_sound : type_of% @Sipsp.i6_contains_sound := @Sipsp.i6_contains_sound

theorem ip6_contains_none : type_of% @Sipsp.i6_contains_none := @Sipsp.i6_contains_none

theorem ip6_contains_first : type_of% @Sipsp.i6_try_some := @Sipsp.i6_try_some

theorem ip6_reject_eof : type_of% @Sipsp.i6_prefixAt_eof := @Sipsp.i6_prefixAt_eof

/-- **rejections at a colon, with the returned offset**: a third colon in a row or a second "::" — Bad, offset of that
    colon; a colon after the maximal number of colons (7 without "::", 8 with it) — the address ends there: BadChar,
    or Bad inside brackets -/
theorem ip6_reject_colon : type_of% @Sipsp.i6_prefixAt_colon := @Sipsp.i6_prefixAt_colon

/-- **a group of more than four digits**: after a complete address MoreValues with the offset of the fifth digit (Bad
    inside brackets); inside an address Bad -/
theorem ip6_reject_hex : type_of% @Sipsp.i6_prefixAt_hex := @Sipsp.i6_prefixAt_hex

/-- the closing bracket -/
theorem ip6_reject_close : type_of% @Sipsp.i6_prefixAt_close := @Sipsp.i6_prefixAt_close

/-- **any other byte** (in particular an unbalanced bracket: a bracketed address followed by something else than `]`,
    verdict Bad; a `]` without `[` is just such a byte, verdict BadChar) -/
theorem ip6_reject_other : type_of% @Sipsp.i6_prefixAt_other := @Sipsp.i6_prefixAt_other

/-- when the group being read is empty or there is no "::", the value reported at a surplus colon is the right one -/
theorem ip6_value_cut_eq : type_of% @Sipsp.I6G.valueCut_eq := @Sipsp.I6G.valueCut_eq

/-- the value of a complete address: eight words, each below 2^16 -/
theorem ip6_value_words : type_of% @Sipsp.I6G.value_words := @Sipsp.I6G.value_words

/-! ### ContainsIP6 reports the first accepted candidate in its explicit trial order (proved in `Sipsp.Proofs.Leftovers2`) -/

/-- **ContainsIP6 reports the first accepted candidate in trial order** -/
theorem ip6_contains_first_in_order : type_of% @Sipsp.lo2_i6_contains_first := @Sipsp.lo2_i6_contains_first

end Sipsp.C20
