/-
  Property C20 - extension file: theorems of this property that are proved in layers which themselves import
  Sipsp/Properties/C20.lean (message-level compositions, audit lemmas). Same namespace as the main file; the check
  audits both files together.
-/
import Sipsp.Properties.C20
import Sipsp.Proofs.AuditExamples

namespace Sipsp.C20
open Sipsp

/-! ### the returned address has four entries (proved in `Sipsp.Proofs.AuditExamples`) -/

/-- **C20**: a positive IP4Prefix returns an address array of exactly 4 entries -/
theorem ip4prefix_size : type_of% @Sipsp.ae_ip4Prefix_pos_size := @Sipsp.ae_ip4Prefix_pos_size

/-- **C20**: a positive ContainsIP4 returns an address array of exactly 4 entries -/
theorem containsip4_size : type_of% @Sipsp.ae_containsIP4_size := @Sipsp.ae_containsIP4_size

end Sipsp.C20
