/-
  Property C06 — message framing: Content-Length, body modes and pipelined messages.

  `msgBody b h m flags` is the code of `case SIPMsgBody:` of ParseSIPMsg, reached with `h` = the offset where
  the header block ended. The theorems give the complete case table for ALL buffers, ALL offsets, ALL
  Content-Length values and ALL 8 flag sets (`flags % 8` determines the flags). `clen` is
  `m.pv.clen.uiVal` when a Content-Length header was parsed.

  Proved: the full body table (`body_*`), the derived facts "success exactly when n bytes follow" and
  "offset = first byte after the body".
  Pipelining (`Sipsp.Proofs.ShiftMsg`, from the message-level position independence of C11): `pipeline_second_message`
  — if the first message fills `b1` exactly (OK at `o1 = len(b1)`), parsing `b1 ++ b2` at `o1` from an Init object gives
  the result of parsing `b2` alone at 0 with the offset and every field moved by `len(b1)`, whatever `b2` is (valid or
  not, complete or not); `pipeline_second_message_ok`: when `b2` alone parses OK at `o2`, the pipelined call returns
  exactly `(len(b1) + o2, OK, the moved message)`; `pipeline_nth_message`: the same for message `i` of a list of
  messages laid out one after the other. Together with the body table ("offset = first byte after the body") this
  is the property's "parsing resumes exactly there and the next message parses as it would alone".
  Each message as it would parse ALONE (`Sipsp.Proofs.PipelineAlone`): "framing-definite" (`framing_definite_iff`) =
  the no-more-data flag is not set and (skip-body ∨ Content-Length required ∨ a Content-Length header was parsed) —
  exactly the modes in which the body is not "the rest of the buffer"; `msg_alone_then_followed`: a text that parses
  alone to (its size, OK, obj) in such a mode returns exactly the same triple when ANY bytes follow it — no field
  differs; `alone_needs_framing`: without that condition a non-empty continuation moves the offset (the property's own
  exemption); `pipeline_each_message_as_alone`, `pipeline_each_message_after_reset`, `pipeline_each_message_nomore`:
  in a buffer holding texts one after the other, parsing at the start of text `i` (from Init, or from the previous
  object after Reset, any history) returns (start of text i+1, OK, the stand-alone object of text i moved by its start)
  — only text `i` must be a complete framing-definite message, the others are arbitrary; `parse_all_pipeline`,
  `parse_all_pipeline_get`, `parse_all_pipeline_nomore`: the caller's loop "Reset, parse at the returned offset, until
  the buffer is exhausted" returns exactly the list of the moved stand-alone objects and ends at the end of the buffer.
  The table is what ParseSIPMsg executes (`Sipsp.Proofs.AuditFixA`; the review noted that `body_*` were about the helper
  `msgBody` only): `msg_is_body_table` (first line OK, header block OK at `h` ⇒ `parseSIPMsg = msgBody b h …`),
  `ok_went_through_body_table`, `clen_framing`, `ok_with_content_length`: after a successful ParseSIPMsg with a parsed
  Content-Length `n` and body parsing on, `h` = where ParseHeaders stopped, `h + n ≤ len`, the returned offset is `h + n`
  and the body is `[h, h+n)`; with fewer bytes the verdict is MoreBytes at `h`.
  A LAST text that is complete only in no-more-data mode (`Sipsp.Proofs.TruncPipeline`): `pipeline_last_truncated` — k
  complete framing-definite messages followed by a text whose header block is complete and whose body is shorter than
  its Content-Length: the caller's loop with the no-more-data flag returns the k moved stand-alone objects and then OK with
  the truncated body reaching the end of the buffer (= the flagged stand-alone result of that text, moved; read back
  byte for byte), without the flag the same k objects and MoreBytes at the body start; `pipeline_last_complete_at_end`
  (any last text that alone ends OK at its end, e.g. a body-to-end message); `pipeline_flag_irrelevant_before_last`,
  `flag_irrelevant_call`: the flag makes no difference for the complete messages in front; `declared_length_rules`,
  `clen_fit_any_flags`: with a parsed Content-Length n and n bytes available the body is EXACTLY those n bytes whatever
  follows and whatever the no-more-data flag says; `schedule_message_in_pipeline`, `schedule_last_truncated`,
  `pipeline_chunking_irrelevant(_truncated)`: every chunk schedule of the pipeline buffer gives the same list of objects.
  NOT proved: a truncated text that is not the last one (not a pipeline: the announced bytes are taken from the next
  text); a last text whose header block is incomplete; schedules in which an earlier call already carries the flag.
  SCOPE NOTES after the second sceptical review (AB1): "every chunk schedule of the pipeline buffer" = one schedule PER
  MESSAGE, each started on the Reset object, the last buffer of each schedule parsed with the final flags (`tpScheds`);
  in `pipeline_last_truncated` the object of the flagged stand-alone call is `paAlone` by definition — the content of that
  conjunct is its offset, verdict and body read-back.
-/
import Sipsp.Model.Msg
import Sipsp.Proofs.ShiftMsg
import Sipsp.Proofs.PipelineAlone
import Sipsp.Proofs.AuditFixA
import Sipsp.Proofs.TruncPipeline

namespace Sipsp.C06
open Sipsp

/-- result triple of the body section: (offset, verdict, body field, state) -/
def bodyObs (r : Nat × Err × PSIPMsg) : Nat × Err × PField × MsgState := (r.1, r.2.1, r.2.2.body, r.2.2.state)

variable (b : Buf) (h : Nat) (m : PSIPMsg) (flags : Nat)

/-- skip-body + require-Content-Length + none present: reported as such at the body start -/
theorem body_skip_noclen (hs : hasFlag flags SIPMsgSkipBodyF = true) (hr : hasFlag flags SIPMsgCLenReqF = true)
    (hc : m.pv.clen.parsed = false) :
    bodyObs (msgBody b h m flags) = (h, .noCLen, PField.set h h, .noCLen) := by
  simp [bodyObs, msgBody, hs, hr, hc, PSIPMsg.setBufs]

/-- skip-body otherwise: success, offset = body start, empty body -/
theorem body_skip (hs : hasFlag flags SIPMsgSkipBodyF = true)
    (hr : hasFlag flags SIPMsgCLenReqF = false ∨ m.pv.clen.parsed = true) :
    bodyObs (msgBody b h m flags) = (h, .ok, (PField.set h h).extend h, .fin) := by
  rcases hr with hr | hr <;> simp [bodyObs, msgBody, msgEnd, hs, hr, PSIPMsg.setBufs]

/-- body parsing on, Content-Length n, n bytes available: success, body = exactly those n bytes, offset after them -/
theorem body_clen_ok (hs : hasFlag flags SIPMsgSkipBodyF = false) (hc : m.pv.clen.parsed = true)
    (hfit : h + m.pv.clen.uiVal ≤ b.size) :
    bodyObs (msgBody b h m flags) =
      (h + m.pv.clen.uiVal, .ok, (PField.set h h).extend (h + m.pv.clen.uiVal), .fin) := by
  have : ¬ (h + m.pv.clen.uiVal > b.size) := by omega
  simp [bodyObs, msgBody, msgEnd, hs, hc, this, PSIPMsg.setBufs]

/-- fewer bytes available, more data may come: more-bytes-needed at the body start (nothing consumed) -/
theorem body_clen_more (hs : hasFlag flags SIPMsgSkipBodyF = false) (hc : m.pv.clen.parsed = true)
    (hshort : h + m.pv.clen.uiVal > b.size) (hn : hasFlag flags SIPMsgNoMoreDataF = false) :
    (msgBody b h m flags).1 = h ∧ (msgBody b h m flags).2.1 = .moreBytes := by
  simp [msgBody, hs, hc, hshort, hn]

/-- fewer bytes available in no-more-data mode: truncated body = rest of the buffer -/
theorem body_clen_trunc (hs : hasFlag flags SIPMsgSkipBodyF = false) (hc : m.pv.clen.parsed = true)
    (hshort : h + m.pv.clen.uiVal > b.size) (hn : hasFlag flags SIPMsgNoMoreDataF = true) :
    bodyObs (msgBody b h m flags) = (b.size, .ok, (PField.set h h).extend b.size, .fin) := by
  simp [bodyObs, msgBody, msgEnd, hs, hc, hshort, hn, PSIPMsg.setBufs]

/-- no Content-Length, require-Content-Length mode: never guesses, the body is empty -/
theorem body_noclen_req (hs : hasFlag flags SIPMsgSkipBodyF = false) (hc : m.pv.clen.parsed = false)
    (hr : hasFlag flags SIPMsgCLenReqF = true) :
    bodyObs (msgBody b h m flags) = (h, .ok, (PField.set h h).extend h, .fin) := by
  simp [bodyObs, msgBody, msgEnd, hs, hc, hr, PSIPMsg.setBufs]

/-- no Content-Length and neither flag: the body is the rest of the buffer -/
theorem body_noclen_rest (hs : hasFlag flags SIPMsgSkipBodyF = false) (hc : m.pv.clen.parsed = false)
    (hr : hasFlag flags SIPMsgCLenReqF = false) :
    bodyObs (msgBody b h m flags) = (b.size, .ok, (PField.set h h).extend b.size, .fin) := by
  simp [bodyObs, msgBody, msgEnd, hs, hc, hr, PSIPMsg.setBufs]

/-- **success exactly when n bytes follow the blank line** (body parsing on, Content-Length present,
    more data may come) -/
theorem success_iff_bytes_follow (hs : hasFlag flags SIPMsgSkipBodyF = false) (hc : m.pv.clen.parsed = true)
    (hn : hasFlag flags SIPMsgNoMoreDataF = false) :
    (msgBody b h m flags).2.1 = .ok ↔ h + m.pv.clen.uiVal ≤ b.size := by
  by_cases hfit : h + m.pv.clen.uiVal ≤ b.size
  · have := body_clen_ok b h m flags hs hc hfit
    simp only [bodyObs, Prod.mk.injEq] at this
    simp [this.2.1, hfit]
  · have := body_clen_more b h m flags hs hc (by omega) hn
    simp [this.2, hfit]

/-- the body field denotes `[h, h+n)` when everything fits the 16-bit addressing limit -/
theorem body_span (n : Nat) (hlim : h + n < 65536) :
    ((PField.set h h).extend (h + n)).offs = h ∧ ((PField.set h h).extend (h + n)).len = n := by
  simp only [PField.set, PField.extend, trunc16]
  have h1 : h % 65536 = h := Nat.mod_eq_of_lt (by omega)
  have h2 : (h + n) % 65536 = h + n := Nat.mod_eq_of_lt hlim
  rw [h1, h2]
  constructor
  · trivial
  · have : h + n + 65536 - h = n + 65536 := by omega
    rw [this]; omega

/-! ### non-vacuity -/
example : hasFlag 5 SIPMsgSkipBodyF = true ∧ hasFlag 5 SIPMsgCLenReqF = false := by decide
example : (parseSIPMsg
    #[65, 32, 66, 32, 67, 13, 10, 108, 58, 50, 13, 10, 13, 10, 120, 121, 122] 0
    ({} : PSIPMsg) 0).1 = 16 := by decide +kernel

/-! ### pipelining: the next message in the same buffer (proved in `Sipsp.Proofs.ShiftMsg`) -/

/-- **pipelined messages (property C06)**: when the first message fills `b1` exactly (ParseSIPMsg on `b1` from an
    Init object says OK at offset `o1 = b1.size`), parsing the buffer `b1 ++ b2` at offset `o1` from an Init object
    gives the result of parsing `b2` alone at offset 0 moved by `b1.size` (`smResM`): the same verdict, the returned
    offset + `b1.size`, and every field of the message object (first line, headers, values, body, `Buf` / `RawMsg`
    bookkeeping) moved by exactly `b1.size` — numbers, counts and flags unchanged. (`len` is what Init records as
    `len(msg.Buf)`; the parser never reads it.) -/
theorem pipeline_second_message : type_of% @_root_.pipeline_second_message := @_root_.pipeline_second_message

/-- … and when the second message parses successfully on its own, the pipelined call returns exactly the moved
    message: OK at `b1.size + o2` with `shMsg b1.size m2` -/
theorem pipeline_second_message_ok : type_of% @_root_.pipeline_second_message_ok := @_root_.pipeline_second_message_ok

/-- **any message of a pipeline**: in the buffer that holds the messages `l` one after the other, parsing at the
    offset where message `i` starts (from an Init object) gives the result of parsing the rest of the pipeline
    (messages `i, i+1, …` in a buffer of their own, at offset 0) moved by the total size of the messages before it -/
theorem pipeline_nth_message : type_of% @_root_.pipeline_nth_message := @_root_.pipeline_nth_message

/-! ### each message of a pipeline parses as it would alone (proved in `Sipsp.Proofs.PipelineAlone`) -/

/-- **(1) a message that parses alone parses identically when followed by anything**: if the text `x` parsed alone
    (from any Init object) gives OK at `x.size` with object `obj`, in a framing-definite mode, then for ANY bytes `rest`
    the call on `x ++ rest` returns exactly the same offset, verdict and object. No bookkeeping field differs. -/
theorem msg_alone_then_followed : type_of% @Sipsp.msg_alone_then_followed := @Sipsp.msg_alone_then_followed

/-- the framing condition is necessary: if the message parsed alone is NOT framing-definite because its body is "the
    rest of the buffer" (no Content-Length, neither flag), then any non-empty continuation changes the result -/
theorem alone_needs_framing : type_of% @Sipsp.pa_alone_needs_framing := @Sipsp.pa_alone_needs_framing

theorem framing_definite_iff : type_of% @Sipsp.paFramed_iff := @Sipsp.paFramed_iff

/-- **(2) message `i` of a pipeline parses as it would alone**: `l` is a list of texts laid one after the other in one
    buffer (`smCat l`). If text `i` parsed alone (from an Init object) gives OK at its end with object `obj`, in a
    framing-definite mode, then parsing the big buffer at the offset where text `i` starts (from the same Init
    object) returns OK, the offset of the first byte of text `i+1`, and the stand-alone object with every field moved
    by the start offset (`shMsg`). Nothing is assumed about the other texts. -/
theorem pipeline_each_message_as_alone : type_of% @Sipsp.pipeline_each_message_as_alone := @Sipsp.pipeline_each_message_as_alone

/-- … and the same with the caller's actual object: any object with any history (`ScReach`), Reset before the call.
    The stand-alone parse is the one from an Init object with the capacities of that object. -/
theorem pipeline_each_message_after_reset : type_of% @Sipsp.pipeline_each_message_after_reset := @Sipsp.pipeline_each_message_after_reset

/-- **(2) in the no-more-data mode**: message `i` is complete and framing-definite under `flags` (no-more-data not
    set); the pipelined call may use `flags'` = the same flags with the no-more-data flag set (e.g. the whole datagram
    is in the buffer) and still returns the moved stand-alone object. -/
theorem pipeline_each_message_nomore : type_of% @Sipsp.pipeline_each_message_as_alone_nomore := @Sipsp.pipeline_each_message_as_alone_nomore

/-- **(3) the caller's loop over a buffer of pipelined messages**: the buffer holds the texts `l` one after the
    other, each of which is a complete message in a framing-definite mode when parsed alone (from an Init object with
    the capacities of the caller's object). Starting at offset 0 with an object `m` of any history, the loop "Reset,
    ParseSIPMsg, continue at the returned offset" returns exactly the stand-alone objects, message `i` moved by the
    total size of the messages before it, and stops with OK at the end of the buffer. -/
theorem parse_all_pipeline : type_of% @Sipsp.parseAll_pipeline := @Sipsp.parseAll_pipeline

/-- … read per message: the loop returns as many objects as there are messages, and object `i` is the stand-alone object
    of message `i` moved by the offset where message `i` starts -/
theorem parse_all_pipeline_get : type_of% @Sipsp.parseAll_pipeline_get := @Sipsp.parseAll_pipeline_get

/-- **(3) in the no-more-data mode**: the messages are complete and framing-definite under `flags` (no-more-data not
    set); the loop may run with `flags'` = the same flags plus the no-more-data flag and returns the same list -/
theorem parse_all_pipeline_nomore : type_of% @Sipsp.parseAll_pipeline_nomore := @Sipsp.parseAll_pipeline_nomore

/-! ### the body table is what ParseSIPMsg executes (proved in `Sipsp.Proofs.AuditFixA`) -/

/-- **the link**: on a new / Init / Reset object (state `init`), if ParseFLine says OK at `o1` and ParseHeaders
    says OK at `h`, then ParseSIPMsg IS the body section `msgBody` entered at `h` with the parsed parts. -/
theorem msg_is_body_table : type_of% @Sipsp.parseSIPMsg_eq_msgBody := @Sipsp.parseSIPMsg_eq_msgBody

/-- conversely, an OK verdict of ParseSIPMsg on a state-`init` object went through exactly this path -/
theorem ok_went_through_body_table : type_of% @Sipsp.parseSIPMsg_ok_path := @Sipsp.parseSIPMsg_ok_path

/-- **Content-Length framing of ParseSIPMsg itself** (body parsing on, more data may come): the first line was OK,
    ParseHeaders stopped with OK at `h` and its values object `hv` holds a parsed Content-Length `n = hv.clen.uiVal`.
    Then: the verdict is OK iff `h + n ≤ len(buf)`; if so the returned offset is `h + n`, the body field is
    `Set(h,h)` extended to `h + n`, and the returned object carries exactly `hv`; otherwise the verdict is MoreBytes
    at `h` (nothing of the body consumed). -/
theorem clen_framing : type_of% @Sipsp.parseSIPMsg_clen_framing := @Sipsp.parseSIPMsg_clen_framing

/-- **the corollary in the property's words**: ParseSIPMsg on a state-`init` object returned OK with object `m'`, a
    Content-Length header was parsed (`m'.pv.clen.parsed`), body parsing on, more data may come. Then there is the
    offset `h` where ParseHeaders stopped (OK) such that the `n = m'.pv.clen.uiVal` body bytes are all there
    (`h + n ≤ len(buf)`), the returned offset is `h + n` — the first byte after the body — and the body field is
    `Set(h,h).Extend(h+n)`, i.e. `[h, h+n)` when it fits the 16-bit fields. -/
theorem ok_with_content_length : type_of% @Sipsp.parseSIPMsg_ok_clen := @Sipsp.parseSIPMsg_ok_clen

/-! ### a last text with a truncated body, the no-more-data flag, declared lengths, chunk schedules of a pipeline (proved in `Sipsp.Proofs.TruncPipeline`) -/

/-- **(1) `pipeline_last_truncated`**: the buffer holds `k` complete framing-definite messages `l` (complete under
    `flags`, which does not carry the no-more-data flag) followed by a LAST text `y` whose header block is complete
    (ends at `h` inside `y`) and whose body is shorter than its Content-Length (`tpTruncated`); body parsing on.
    The caller's loop — Reset, ParseSIPMsg at the returned offset — started at 0 with an object of any history:
    * run WITH the no-more-data flag (`flags'` = `flags` plus the flag) it returns the `k` moved stand-alone objects
      and then, for the last text, the stand-alone no-more-data object of `y` moved by the start of `y`, and ends with
      OK at the end of the buffer; that stand-alone object is what ONE call with the flag on `y` alone returns (OK at
      `len(y)`), its body is `Set(h,h).Extend(len(y))`, and the moved body read back from the pipeline buffer is
      exactly the bytes of `y` after its header block: the truncated body reaches the end of the buffer;
    * run WITHOUT the flag it returns the same first `k` objects and stops with MoreBytes at the body start of the
      last text (`len(messages) + h`): nothing of the truncated body is consumed. -/
theorem pipeline_last_truncated : type_of% @Sipsp.pipeline_last_truncated := @Sipsp.pipeline_last_truncated

/-- **`pipeline_last_complete_at_end`**: `k` complete framing-definite messages `l` followed by a last text `y` which,
    parsed ALONE with the flag word `flags'` of the loop, gives OK exactly at its end with object `obj` — for whatever
    reason: a truncated body in the no-more-data mode (then this is the first half of `pipeline_last_truncated`), or
    "no Content-Length, body = rest of the buffer", or a complete framing-definite message. The caller's loop returns
    the `k` moved stand-alone objects, then `obj` moved by the start of `y`, and ends with OK at the end of the buffer. -/
theorem pipeline_last_complete_at_end : type_of% @Sipsp.pipeline_last_complete_at_end := @Sipsp.pipeline_last_complete_at_end

/-- **(2) `pipeline_flag_irrelevant_before_last`**: the buffer holds the complete framing-definite messages `l` followed by
    ANY last text `tail` (complete, truncated, garbage, empty). The caller's loop run with the no-more-data flag
    (`flags'`) and the loop run without it (`flags`) return the same first `k = l.length` objects: entry `i` is the
    stand-alone object of message `i` moved by the offset where message `i` starts. Whatever the flag changes, it
    changes it at `tail`. -/
theorem pipeline_flag_irrelevant_before_last : type_of% @Sipsp.pipeline_flag_irrelevant_before_last := @Sipsp.pipeline_flag_irrelevant_before_last

/-- **(2), call level**: in a buffer `pre ++ (x ++ rest)` where `x` is a complete framing-definite message (`pre`, `rest`
    arbitrary — e.g. a truncated last text in `rest`), the call at the start of `x` on a Reset object of any history
    returns the same triple with the no-more-data flag (`flags'`) as without it (`flags`): the moved stand-alone
    object of `x`, OK at the first byte after `x` (`flags_switch` of C01x at pipeline level) -/
theorem flag_irrelevant_call : type_of% @Sipsp.tp_flag_irrelevant_call := @Sipsp.tp_flag_irrelevant_call

/-- **(3) `declared_length_rules`**: body parsing on; the text `x`, parsed from a new / Init / Reset object at `o` with a
    flag word `flags` without the no-more-data flag, gives OK with a parsed Content-Length `n` (so, by
    `ok_with_content_length`, at least `n` bytes follow its header block). Then there is the offset `h` where the header
    block ended such that for ANY bytes `rest` appended and for the flag word `flags'` WITH (or without) the
    no-more-data flag, the call on `x ++ rest` returns exactly the same triple: OK at `h + n` with the same object,
    whose body is `Set(h,h).Extend(h+n)` = exactly the `n` bytes `x[h : h+n]` after the blank line — never more (the
    bytes of `rest`, or further bytes of `x`, are not taken, also when the caller says no more data will come) and
    never fewer. -/
theorem declared_length_rules : type_of% @Sipsp.declared_length_rules := @Sipsp.declared_length_rules

/-- **the Content-Length row of the body table for ParseSIPMsg itself, for EVERY flag word with body parsing on** (the
    no-more-data flag may be set or not, `parseSIPMsg_clen_framing` has the case without it): first line OK, header
    block OK at `h` with a parsed Content-Length `n`, and `n` bytes available after `h`. Then the call says OK at
    `h + n`, the object is finished, carries the parsed values, and the body field is `Set(h,h).Extend(h+n)`; within
    the 16-bit limit it denotes exactly `buf[h : h+n]` — never more, never fewer, whatever follows. -/
theorem clen_fit_any_flags : type_of% @Sipsp.tp_clen_fit := @Sipsp.tp_clen_fit

/-- after any history, Reset + ParseSIPMsg WITH the no-more-data flag at the start of the truncated text `y` that is
    preceded by `pre` and ends the buffer: OK at the end of the buffer, the stand-alone no-more-data object moved -/
theorem truncated_call_nomore : type_of% @Sipsp.tp_turn_trunc_nmd := @Sipsp.tp_turn_trunc_nmd

/-- … and WITHOUT the flag: MoreBytes at the body start of `y` (`pre.size + h`), nothing of the body consumed -/
theorem truncated_call_more : type_of% @Sipsp.tp_turn_trunc_more := @Sipsp.tp_turn_trunc_more

/-- **(4), a complete message inside the buffer, every schedule**: the buffer `B = pre ++ (x ++ rest)` arrives in
    pieces: `c` is ANY growing list of prefixes of `B` ending with `B` (any number of cuts, anywhere — inside `x`,
    inside `rest`, the last two buffers may be equal), the first of which reaches the start of `x`. The caller Resets
    its object (any history) and calls ParseSIPMsg at the start of `x` on each buffer in turn, resuming at the
    returned offset on the same object while the verdict is MoreBytes — with `flags` throughout (`resumeRun`), or with
    `flags'` (e.g. plus the no-more-data flag) on the last buffer (`resumeRunEnd`). If `x` is a complete
    framing-definite message, both chains return exactly what ONE call on `B` returns: OK at the first byte after `x`
    with the stand-alone object of `x` moved by `pre.size`. The chunking does not show in the result. -/
theorem schedule_message_in_pipeline : type_of% @Sipsp.tp_schedule_message := @Sipsp.tp_schedule_message

/-- **(4), the truncated last text, every schedule**: `B = pre ++ y` where `y` has a complete header block (ending at
    `h`) and a body shorter than its Content-Length, body parsing on; `c` is any growing list of prefixes of `B` ending
    with `B` whose first buffer reaches the start of `y`. The chain of resumed calls from a Reset object with `flags`
    (no no-more-data flag) on all buffers but the last and `flags'` (with the flag) on the last returns exactly what
    ONE call with the flag returns: OK at the end of the buffer, the stand-alone no-more-data object of `y` moved by
    `pre.size`; the chain with `flags` throughout ends with MoreBytes at the body start `pre.size + h`. -/
theorem schedule_last_truncated : type_of% @Sipsp.tp_schedule_last_truncated := @Sipsp.tp_schedule_last_truncated

/-- **(4) `pipeline_chunking_irrelevant`**: the buffer holds the complete framing-definite messages `l`; it arrives in
    chunks, and the caller works through it with ONE message object, message after message, each message over its own
    ARBITRARY chunk schedule (`tpScheds`: any cuts; the schedule of message `i` ends with any buffer that holds
    messages `0..i` and possibly more). The streaming loop returns exactly the moved stand-alone objects — the list
    that the loop over the complete buffer returns (`parse_all_pipeline`) — and ends at the end of the messages.
    Neither the chunking nor a no-more-data flag on the last call of each schedule (`flags'`) shows in the result. -/
theorem pipeline_chunking_irrelevant : type_of% @Sipsp.pipeline_chunking_irrelevant := @Sipsp.pipeline_chunking_irrelevant

/-- **(4) + (1) `pipeline_chunking_irrelevant_truncated`**: `k` complete framing-definite messages `l`, each over its own
    arbitrary chunk schedule, then a LAST text `y` with a complete header block (ending at `h`) and a body shorter
    than its Content-Length, over an arbitrary schedule `cy` ending with the whole buffer `smCat l ++ y`; body parsing
    on. With the no-more-data flag on the last call of each schedule (`flags'`) the streaming loop returns what the
    loop over the complete buffer returns (`pipeline_last_truncated`): the `k` moved stand-alone objects, then the
    stand-alone no-more-data object of `y` moved by the start of `y` (truncated body reaching the end of the buffer),
    OK at the end of the buffer. Without the flag (`flags` throughout) it returns the same first `k` objects and stops
    with MoreBytes at the body start of `y`. -/
theorem pipeline_chunking_irrelevant_truncated : type_of% @Sipsp.pipeline_chunking_irrelevant_truncated := @Sipsp.pipeline_chunking_irrelevant_truncated

end Sipsp.C06
