/-
  Property C06 — message framing: Content-Length, body modes and pipelined messages.

  `msgBody b h m flags` is the code of `case SIPMsgBody:` of ParseSIPMsg, reached with `h` = the offset where
  the header block ended. The theorems give the complete case table for ALL buffers, ALL offsets, ALL
  Content-Length values and ALL 8 flag sets (`flags % 8` determines the flags). `clen` is
  `m.pv.clen.uiVal` when a Content-Length header was parsed.

  Proved: the full body table (`body_*`), the derived facts "success exactly when n bytes follow" and
  "offset = first byte after the body". NOT yet proved: the pipelining corollary (needs L1 + L3 + C12 at
  message level); it is checked by the correspondence and the pipeline oracle only.
-/
import Sipsp.Model.Msg

namespace Sipsp.C06
open Sipsp

/-- result triple of the body section: (offset, verdict, body field, state) -/
def bodyObs (r : Nat × Err × PSIPMsg) : Nat × Err × PField × MsgState := (r.1, r.2.1, r.2.2.body, r.2.2.state)

variable (b : Buf) (h : Nat) (m : PSIPMsg) (flags : Nat)

/-- skip-body + require-Content-Length + none present: reported as such at the body start -/
theorem body_skip_noclen (hs : hasFlag flags SIPMsgSkipBodyF = true) (hr : hasFlag flags SIPMsgCLenReqF = true)
    (hc : m.pv.clen.parsed = false) :
    bodyObs (msgBody b h m flags) = (h, .noCLen, PField.set h h, .noCLen) := by
  simp [bodyObs, msgBody, hs, hr, hc, PSIPMsg.setBufs]

/-- skip-body otherwise: success, offset = body start, empty body -/
theorem body_skip (hs : hasFlag flags SIPMsgSkipBodyF = true)
    (hr : hasFlag flags SIPMsgCLenReqF = false ∨ m.pv.clen.parsed = true) :
    bodyObs (msgBody b h m flags) = (h, .ok, (PField.set h h).extend h, .fin) := by
  rcases hr with hr | hr <;> simp [bodyObs, msgBody, msgEnd, hs, hr, PSIPMsg.setBufs]

/-- body parsing on, Content-Length n, n bytes available: success, body = exactly those n bytes, offset after them -/
theorem body_clen_ok (hs : hasFlag flags SIPMsgSkipBodyF = false) (hc : m.pv.clen.parsed = true)
    (hfit : h + m.pv.clen.uiVal ≤ b.size) :
    bodyObs (msgBody b h m flags) =
      (h + m.pv.clen.uiVal, .ok, (PField.set h h).extend (h + m.pv.clen.uiVal), .fin) := by
  have : ¬ (h + m.pv.clen.uiVal > b.size) := by omega
  simp [bodyObs, msgBody, msgEnd, hs, hc, this, PSIPMsg.setBufs]

/-- fewer bytes available, more data may come: more-bytes-needed at the body start (nothing consumed) -/
theorem body_clen_more (hs : hasFlag flags SIPMsgSkipBodyF = false) (hc : m.pv.clen.parsed = true)
    (hshort : h + m.pv.clen.uiVal > b.size) (hn : hasFlag flags SIPMsgNoMoreDataF = false) :
    (msgBody b h m flags).1 = h ∧ (msgBody b h m flags).2.1 = .moreBytes := by
  simp [msgBody, hs, hc, hshort, hn]

/-- fewer bytes available in no-more-data mode: truncated body = rest of the buffer -/
theorem body_clen_trunc (hs : hasFlag flags SIPMsgSkipBodyF = false) (hc : m.pv.clen.parsed = true)
    (hshort : h + m.pv.clen.uiVal > b.size) (hn : hasFlag flags SIPMsgNoMoreDataF = true) :
    bodyObs (msgBody b h m flags) = (b.size, .ok, (PField.set h h).extend b.size, .fin) := by
  simp [bodyObs, msgBody, msgEnd, hs, hc, hshort, hn, PSIPMsg.setBufs]

/-- no Content-Length, require-Content-Length mode: never guesses, the body is empty -/
theorem body_noclen_req (hs : hasFlag flags SIPMsgSkipBodyF = false) (hc : m.pv.clen.parsed = false)
    (hr : hasFlag flags SIPMsgCLenReqF = true) :
    bodyObs (msgBody b h m flags) = (h, .ok, (PField.set h h).extend h, .fin) := by
  simp [bodyObs, msgBody, msgEnd, hs, hc, hr, PSIPMsg.setBufs]

/-- no Content-Length and neither flag: the body is the rest of the buffer -/
theorem body_noclen_rest (hs : hasFlag flags SIPMsgSkipBodyF = false) (hc : m.pv.clen.parsed = false)
    (hr : hasFlag flags SIPMsgCLenReqF = false) :
    bodyObs (msgBody b h m flags) = (b.size, .ok, (PField.set h h).extend b.size, .fin) := by
  simp [bodyObs, msgBody, msgEnd, hs, hc, hr, PSIPMsg.setBufs]

/-- **success exactly when n bytes follow the blank line** (body parsing on, Content-Length present,
    more data may come) -/
theorem success_iff_bytes_follow (hs : hasFlag flags SIPMsgSkipBodyF = false) (hc : m.pv.clen.parsed = true)
    (hn : hasFlag flags SIPMsgNoMoreDataF = false) :
    (msgBody b h m flags).2.1 = .ok ↔ h + m.pv.clen.uiVal ≤ b.size := by
  by_cases hfit : h + m.pv.clen.uiVal ≤ b.size
  · have := body_clen_ok b h m flags hs hc hfit
    simp only [bodyObs, Prod.mk.injEq] at this
    simp [this.2.1, hfit]
  · have := body_clen_more b h m flags hs hc (by omega) hn
    simp [this.2, hfit]

/-- the body field denotes `[h, h+n)` when everything fits the 16-bit addressing limit -/
theorem body_span (n : Nat) (hlim : h + n < 65536) :
    ((PField.set h h).extend (h + n)).offs = h ∧ ((PField.set h h).extend (h + n)).len = n := by
  simp only [PField.set, PField.extend, trunc16]
  have h1 : h % 65536 = h := Nat.mod_eq_of_lt (by omega)
  have h2 : (h + n) % 65536 = h + n := Nat.mod_eq_of_lt hlim
  rw [h1, h2]
  constructor
  · trivial
  · have : h + n + 65536 - h = n + 65536 := by omega
    rw [this]; omega

/-! ### non-vacuity -/
example : hasFlag 5 SIPMsgSkipBodyF = true ∧ hasFlag 5 SIPMsgCLenReqF = false := by decide
example : (parseSIPMsg
    #[65, 32, 66, 32, 67, 13, 10, 108, 58, 50, 13, 10, 13, 10, 120, 121, 122] 0
    ({} : PSIPMsg) 0).1 = 16 := by decide +kernel

end Sipsp.C06
