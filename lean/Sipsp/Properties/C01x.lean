/-
  Property C01 - extension file: theorems of this property that are proved in layers which themselves import
  Sipsp/Properties/C01.lean (message-level compositions, audit lemmas). Same namespace as the main file; the check
  audits both files together.
-/
import Sipsp.Properties.C01
import Sipsp.Proofs.MsgLastFlags

namespace Sipsp.C01
open Sipsp

/-! ### the flags of the LAST call may differ (the caller learns that the stream ended) (proved in `Sipsp.Proofs.MsgLastFlags`) -/

/-- **C01, the flags of the last call differ (general form)**: for EVERY growing sequence of prefixes (each within the
    65,535-byte limit), EVERY flag word `f` for the calls before the last and EVERY flag word `f'` for the last
    call, from any legitimate object: the chain of resumed calls returns what FRESH calls on the same prefixes return
    (`f` on the prefixes before the last — the first definitive verdict wins, as in `schedule_msg` —, `f'` on the last
    buffer): same offset, same verdict, the very same object when the verdict is not an error and the same `msgObs`
    observation after an error. No hypothesis on `f` or `f'`. -/
theorem schedule_msg_last_flags : type_of% @Sipsp.schedule_msg_last_flags := @Sipsp.schedule_msg_last_flags

/-- … from any object produced by Init: any previous contents, zeroed caller arrays of any capacity (or none) -/
theorem schedule_msg_last_flags_init : type_of% @Sipsp.schedule_msg_last_flags_init := @Sipsp.schedule_msg_last_flags_init

/-- **C01, the stream ended while the parser was still asking for more**: `f` any flag word without the no-more-data
    flag, `f'` ANY flag word (in particular `f ||| SIPMsgNoMoreDataF`). If one call with `f` on the last buffer `B`
    says MoreBytes (equivalently, by `schedule_msg`: the chain with `f` alone ends with MoreBytes), then the chain —
    `f` before the last call, `f'` at the last call on `B` — returns what ONE call with `f'` on `B` returns on the
    original object. The last two buffers may be equal (nothing more arrived: the caller just learnt that the
    stream ended and calls again on the same bytes with the flag). -/
theorem schedule_msg_last_flags_more : type_of% @Sipsp.schedule_msg_last_flags_more := @Sipsp.schedule_msg_last_flags_more

/-- the chain with ONE flag word (`schedule_msg`) in terms of one call: if one call on the last buffer says MoreBytes,
    so does the chain, at the same offset with the same object -/
theorem schedule_msg_more : type_of% @Sipsp.schedule_msg_more := @Sipsp.schedule_msg_more

/-- … for `f' = f ||| SIPMsgNoMoreDataF` -/
theorem schedule_msg_last_nmd : type_of% @Sipsp.schedule_msg_last_nmd := @Sipsp.schedule_msg_last_nmd

/-- **(2) the corollary a user cares about.** The whole input `B` is a message whose body is shorter than its
    Content-Length (hypotheses as in `parseSIPMsg_clen_framing`, on `B`: first line OK, header block OK at `h` with a
    parsed Content-Length `n`, `h + n > len(B)`), body parsing on, `f` without the no-more-data flag. It is fed as ANY
    growing sequence of prefixes ending with `B` (the last two may be equal), from a new / Init / Reset object:
    * with the no-more-data flag on the final call the chain returns exactly (offset, verdict, whole object) what ONE
      call with the flag on `B` returns: OK at `len(B)`, finished, the parsed values `hv`, and the body is the
      truncated body `B[h:]`;
    * WITHOUT the flag the chain ends with MoreBytes at `h` (the body start), exactly as one call on `B`. -/
theorem schedule_msg_truncated_body : type_of% @Sipsp.schedule_msg_truncated_body := @Sipsp.schedule_msg_truncated_body

/-- **the no-more-data flag is only read where the call would otherwise say MoreBytes**: a definitive result of a call
    without the flag is the result of the call with any flag word `f'` that agrees with `f` on the two body-mode
    flags (in particular `f' = f ||| SIPMsgNoMoreDataF`), on the same buffer — any object, any buffer -/
theorem flags_switch : type_of% @Sipsp.parseSIPMsg_flags_switch := @Sipsp.parseSIPMsg_flags_switch

end Sipsp.C01
