/-
  Property C15 — URI comparison obeys the laws of an equivalence check.

  Everything below is proved for ALL inputs the statement quantifies over: all parsed URIs / lists / buffers of any
  size, and all flag values (any `Nat`, not only the 64 combinations of the six skip flags).  A Go panic is the outcome
  `none` of the model; no theorem hides it: either the statement is about `Option` values (so panics are compared
  too), or it has an explicit hypothesis that the fields read lie inside their buffers (`ParamIn`, `HdrIn`, `URIWf`),
  or it proves that no panic occurs.

  (1) FLAG MONOTONICITY (`flags_mono_short`, `flags_mono`, `flags_mono_parseCmp`, `flags_mono_of_subset`):
      if every skip flag of `f` is also set in `g`, a verdict "equal" under `f` is a verdict "equal" under `g`
      (so the run under `g` does not panic either); no hypothesis on the URIs at all.
      `cmp_true_iff` / `short_true_iff` say what a verdict "equal" means stage by stage.
  (2) URICmpShort: `short_symm` (symmetric for ALL inputs, panics included), `short_refl`, `short_host_case` (the
      verdict depends on the hosts only up to letter case, and on nothing but scheme type, port number, user and
      password bytes), `short_user_exact` / `short_pass_exact` (user and password compare byte for byte, i.e.
      case-sensitively); byte comparisons: `bytesEq_iff`, `cmpEq_iff` (equality of the lower-cased strings),
      `cmpEq_refl/symm/trans`, `cmpEq_ignores_case` (any byte-wise re-casing of either side).
  (3) URIParamsLstEq, for lists inside their buffers (`ParamIn`) and free of duplicates (`ParamsNoDup`: no two
      parameters of the same type and, for the type `other`, with names equal up to case):
      `paramsLst_spec` (no panic; "equal" ⇔ same user/ttl/method/maddr presence mask and every parameter present in
      both lists has the same value up to case), `paramsLst_refl`, `paramsLst_symm`, `paramsLst_order` (permuting
      either list), `paramsLst_order_case` (same parameters up to order and letter case of names and values),
      `paramsLst_presence` (user, ttl, method, maddr present in both or neither), `paramsLst_mask_ne`.
  (4) URIHdrsLstEq, same side conditions (`HdrIn`, `HdrsNoDup`): `hdrsLst_spec` ("equal" ⇔ same count and every
      header of the first list occurs in the second with the same name and value up to case), `hdrsLst_refl`,
      `hdrsLst_symm` (with the counting argument), `hdrsLst_order`, `hdrsLst_order_case`.
  (5) entry points: `paramsEq_agrees`, `hdrsEq_agrees` (URIParamsEq / URIHdrsEq = parse each string separately, then
      compare the lists), `cmp_refl`, `cmp_symm`, `cmp_order_case` (URICmp on well-formed URIs, every flag value),
      `parseCmp_agrees`, `parseCmp_err1`, `parseCmp_err2` (URIParseCmp = ParseURI on each string, then URICmp; the
      parsed URIs handed back are exactly those), `parseCmp_symm`;
      `parse_scheme_case` (ParseURI returns the same result when the first four bytes change only in bit 0x20, e.g.
      the letter case of the scheme), `parseCmp_scheme_case` (so does URIParseCmp, complete result).

  The side conditions are necessary: `refl_needs_nodup_params`, `refl_needs_nodup_hdrs` (tests below) show that a URI
  with a repeated parameter / header name is NOT equal to itself for the model (first match wins), and
  `symm_needs_nodup_params`, `symm_needs_nodup_hdrs` that with a repeated name the verdict depends on the order of
  the two arguments.

  The parsers establish the side conditions (`Sipsp.Proofs.UriCmpLink`): `params_parsed_wf`, `hdrs_parsed_wf` (after
  ParseAllURIParams / ParseAllURIHdrs on a new list of any capacity, any verdict: no panic, every stored element
  inside the string, recorded type = classification of its name, type mask = the types that occur unless elements were
  dropped for lack of room), `params_wf_of_nodup`, `hdrs_wf_of_nodup`, `uri_wf_of_parse` (every accepted URI whose
  list names are duplicate-free up to letter case satisfies the hypotheses of the laws). Laws for RAW strings
  (≤ 65,535 bytes): `refl_raw` (accepted, lists parse, duplicate-free names ⇒ equal to itself for every flag set, both
  parsed URIs handed back), `symm_raw`, `symm_raw_full` (the complete results with the parsed URIs swapped; both strings accepted), `presence_raw`
  (user / ttl / method / maddr in any letter case: in both texts or in neither, ≤ 100 parameters), letter case with NO
  side condition: `parse_uri_case` (ParseURI returns the identical result on strings differing only in letter case),
  `cmp_case_raw`, `cmp_host_case_raw` (same text up to case outside user / password ⇒ the complete URIParseCmp result
  is unchanged). `refl_needs_lists_ok`, `symm_needs_nodup`: the two hypotheses are necessary (`sip:a@b;<` is accepted
  by ParseURI but not equal to itself because its parameter list is rejected; `sip:a@b;x=1;X=2`).

  The laws on URI TEXT (`Sipsp.Proofs.UriCmpPerm`): a URI rendered from parts — scheme in any case, optional
  user[:password]@, host name, optional :port, parameter items `name[=value]` joined with ';', header items joined with
  '&' (plain token names / values, names duplicate-free up to case, ≤ 100 items, text ≤ 65,535 bytes) — is a URI of the
  C14 grammar with lists of the C17 grammar, and: `text_spec` (URIParseCmp on two renderings never panics, reports no
  error, hands back both parsed URIs, and says "equal" EXACTLY when an explicit predicate on the parts holds),
  `perm_text` (reordering parameter and / or header items: equal, both argument orders, every flag set), `case_text`,
  `case_text_gen`, `congr_text` (letter case of scheme, host, parameter names / values, header names / values),
  `user_case_text`, `pass_case_text`, `user_skip_text` (user / password differing in case: UNEQUAL unless skipped),
  `presence_text` (a user / ttl / method / maddr item in only one text: unequal), `extra_param_text` (any other item
  present in only one text does not matter).

  NOT proved here:
    * the text-level laws for texts outside that rendering (white space, quoted values, empty items, `[…]` hosts, tel:);
    * the presence rule beyond 100 parameters (the mask then also covers dropped parameters);
    * transitivity of URICmp (false in general: parameters present in only one URI are ignored);
    * behaviour with more than 100 parameters / headers beyond what the hypotheses say about the stored prefix.
  Model tied to sipuri.go / parse_uri_params.go / parse_uri_hdrs.go by the correspondence check.
  KNOWN FINDING F25 (a genuine defect of the library, found by the audit of the generators, known_findings.json): beyond
  100 parameters / headers the comparison depends on the order of the items and ignores the items after the 100th
  (`URIParamsEq` / `URIHdrsEq` compare what fitted into scratch arrays of 100 entries). The theorems below that speak
  about raw texts carry "at most 100 items" for this reason; model and code agree on the witnesses (101 headers rotated:
  unequal; 101st value changed: equal), both contradict the property there.
-/
import Sipsp.Proofs.UriCmpLaws
import Sipsp.Proofs.UriCmpLink
import Sipsp.Proofs.UriCmpPerm

namespace Sipsp.C15
open Sipsp

/-! ### (1) flag monotonicity -/

/-- URICmpShort: ignoring more components can only turn "different" into "equal". -/
theorem flags_mono_short (u1 : PsipURI) (b1 : Buf) (u2 : PsipURI) (b2 : Buf) (f g : Nat)
    (hPort : hasFlag f URICmpSkipPort = true → hasFlag g URICmpSkipPort = true)
    (hScheme : hasFlag f URICmpSkipScheme = true → hasFlag g URICmpSkipScheme = true)
    (hUser : hasFlag f URICmpSkipUser = true → hasFlag g URICmpSkipUser = true)
    (hPass : hasFlag f URICmpSkipPass = true → hasFlag g URICmpSkipPass = true)
    (hParams : hasFlag f URICmpSkipParams = true → hasFlag g URICmpSkipParams = true)
    (hHeaders : hasFlag f URICmpSkipHeaders = true → hasFlag g URICmpSkipHeaders = true)
    (h : uriCmpShort u1 b1 u2 b2 f = some true) : uriCmpShort u1 b1 u2 b2 g = some true :=
  uriCmpShort_mono ⟨hPort, hScheme, hUser, hPass, hParams, hHeaders⟩ u1 b1 u2 b2 h

/-- URICmp: ignoring more components can only turn "different" into "equal" (and cannot introduce a panic). -/
theorem flags_mono (u1 : PsipURI) (b1 : Buf) (u2 : PsipURI) (b2 : Buf) (f g : Nat)
    (hPort : hasFlag f URICmpSkipPort = true → hasFlag g URICmpSkipPort = true)
    (hScheme : hasFlag f URICmpSkipScheme = true → hasFlag g URICmpSkipScheme = true)
    (hUser : hasFlag f URICmpSkipUser = true → hasFlag g URICmpSkipUser = true)
    (hPass : hasFlag f URICmpSkipPass = true → hasFlag g URICmpSkipPass = true)
    (hParams : hasFlag f URICmpSkipParams = true → hasFlag g URICmpSkipParams = true)
    (hHeaders : hasFlag f URICmpSkipHeaders = true → hasFlag g URICmpSkipHeaders = true)
    (h : uriCmp u1 b1 u2 b2 f = some true) : uriCmp u1 b1 u2 b2 g = some true :=
  uriCmp_mono ⟨hPort, hScheme, hUser, hPass, hParams, hHeaders⟩ u1 b1 u2 b2 h

/-- URIParseCmp: the complete result (verdict, error, index, parsed URIs) is kept. -/
theorem flags_mono_parseCmp (raw1 raw2 : Buf) (f g : Nat) (hfg : FlagsLe f g) {e : UErr} {i : Nat}
    {r1 r2 : Option PsipURI} (h : uriParseCmp raw1 raw2 f = some (true, e, i, r1, r2)) :
    uriParseCmp raw1 raw2 g = some (true, e, i, r1, r2) :=
  uriParseCmp_mono hfg raw1 raw2 h

/-- the six implications hold whenever `f` is bitwise contained in `g` -/
theorem flags_mono_of_subset (u1 : PsipURI) (b1 : Buf) (u2 : PsipURI) (b2 : Buf) (f g : Nat) (hfg : f &&& g = f)
    (h : uriCmp u1 b1 u2 b2 f = some true) : uriCmp u1 b1 u2 b2 g = some true :=
  uriCmp_mono (FlagsLe.of_and hfg) u1 b1 u2 b2 h

/-- what "equal" means for URICmp: the short comparison says equal and the parameter and header stages are either
    skipped or say equal -/
theorem cmp_true_iff (u1 : PsipURI) (b1 : Buf) (u2 : PsipURI) (b2 : Buf) (f : Nat) :
    uriCmp u1 b1 u2 b2 f = some true ↔
      uriCmpShort u1 b1 u2 b2 f = some true ∧
      (hasFlag f URICmpSkipParams = true ∨ uriCmpParamsPart u1 b1 u2 b2 = some true) ∧
      (hasFlag f URICmpSkipHeaders = true ∨ uriCmpHdrsPart u1 b1 u2 b2 = some true) :=
  uriCmp_true_iff u1 b1 u2 b2 f

/-! ### (2) URICmpShort and the byte comparisons -/

theorem bytesEq_iff (a c : Buf) : bytesEq a c = true ↔ a = c := Sipsp.bytesEq_iff a c
theorem cmpEq_iff (a c : Buf) : cmpEq a c = true ↔ lowerL a.toList = lowerL c.toList := Sipsp.cmpEq_iff a c
theorem cmpEq_refl (a : Buf) : cmpEq a a = true := Sipsp.cmpEq_refl a
theorem cmpEq_symm (a c : Buf) : cmpEq a c = cmpEq c a := Sipsp.cmpEq_symm a c
theorem cmpEq_trans (a c d : Buf) (h : cmpEq a c = true) (h' : cmpEq c d = true) : cmpEq a d = true :=
  Sipsp.cmpEq_trans h h'

/-- `cmpEq` ignores ASCII letter case: lower-casing / upper-casing any selection of byte positions on either side
    (`recase`) does not change the verdict. -/
theorem cmpEq_ignores_case (s1 s2 : Nat → Bool × Bool) (a c : Buf) :
    cmpEq (recase s1 a) (recase s2 c) = cmpEq a c := cmpEq_recase s1 s2 a c

/-- meaning of "equal" for URICmpShort: scheme type and port number equal or skipped, user and password byte-equal
    (case-sensitive) or skipped, hosts equal up to case; every field that is read lies inside its buffer. -/
theorem short_true_iff (u1 : PsipURI) (b1 : Buf) (u2 : PsipURI) (b2 : Buf) (f : Nat) :
    uriCmpShort u1 b1 u2 b2 f = some true ↔
      (hasFlag f URICmpSkipScheme = true ∨ u1.uriType = u2.uriType) ∧
      (hasFlag f URICmpSkipPort = true ∨ u1.portNo = u2.portNo) ∧
      (hasFlag f URICmpSkipUser = true ∨ ∃ a c, u1.user.get? b1 = some a ∧ u2.user.get? b2 = some c ∧ a = c) ∧
      (hasFlag f URICmpSkipPass = true ∨ ∃ a c, u1.pass.get? b1 = some a ∧ u2.pass.get? b2 = some c ∧ a = c) ∧
      (∃ a c, u1.host.get? b1 = some a ∧ u2.host.get? b2 = some c ∧ CaseEq a c) :=
  uriCmpShort_true_iff u1 b1 u2 b2 f

/-- symmetric for ALL inputs and flags, panics included -/
theorem short_symm (u1 : PsipURI) (b1 : Buf) (u2 : PsipURI) (b2 : Buf) (f : Nat) :
    uriCmpShort u1 b1 u2 b2 f = uriCmpShort u2 b2 u1 b1 f := uriCmpShort_symm u1 b1 u2 b2 f

/-- reflexive when user, password and host lie inside the buffer -/
theorem short_refl (u : PsipURI) (b : Buf) (f : Nat)
    (hu : (u.user.get? b).isSome) (hp : (u.pass.get? b).isSome) (hh : (u.host.get? b).isSome) :
    uriCmpShort u b u b f = some true := uriCmpShort_refl u b f hu hp hh

/-- insensitive to the letter case of the host: same verdict (panics included) on URIs with the same scheme type,
    port number, user and password bytes and hosts equal up to case -/
theorem short_host_case (u1 : PsipURI) (b1 : Buf) (u1' : PsipURI) (b1' : Buf) (u2 : PsipURI) (b2 : Buf)
    (u2' : PsipURI) (b2' : Buf) (f : Nat) (s1 : ShortSame u1 b1 u1' b1') (s2 : ShortSame u2 b2 u2' b2') :
    uriCmpShort u1 b1 u2 b2 f = uriCmpShort u1' b1' u2' b2' f :=
  uriCmpShort_congr u1 b1 u1' b1' u2 b2 u2' b2' f s1 s2

/-- sensitive to the letter case of the user: "equal" without URICmpSkipUser forces identical user bytes -/
theorem short_user_exact (u1 : PsipURI) (b1 : Buf) (u2 : PsipURI) (b2 : Buf) (f : Nat)
    (h : uriCmpShort u1 b1 u2 b2 f = some true) (hf : hasFlag f URICmpSkipUser = false) :
    ∃ a, u1.user.get? b1 = some a ∧ u2.user.get? b2 = some a := uriCmpShort_true_user u1 b1 u2 b2 f h hf

/-- … and of the password -/
theorem short_pass_exact (u1 : PsipURI) (b1 : Buf) (u2 : PsipURI) (b2 : Buf) (f : Nat)
    (h : uriCmpShort u1 b1 u2 b2 f = some true) (hf : hasFlag f URICmpSkipPass = false) :
    ∃ a, u1.pass.get? b1 = some a ∧ u2.pass.get? b2 = some a := uriCmpShort_true_pass u1 b1 u2 b2 f h hf

/-! ### (3) URIParamsLstEq -/

theorem paramsLst_spec (l1 : URIParamsLst) (b1 : Buf) (l2 : URIParamsLst) (b2 : Buf)
    (hin1 : ∀ p ∈ l1.plist, ParamIn b1 p) (hin2 : ∀ p ∈ l2.plist, ParamIn b2 p)
    (hnd2 : ParamsNoDup b2 l2.plist) :
    ∃ r, uriParamsLstEq l1 b1 l2 b2 = some r ∧
      (r = true ↔
        (l1.types &&& uriParamsBMask) = (l2.types &&& uriParamsBMask) ∧
        ∀ p1 ∈ l1.plist, ∀ p2 ∈ l2.plist, PMatch b1 p1 b2 p2 → PValEq b1 p1 b2 p2) :=
  uriParamsLstEq_spec l1 b1 l2 b2 hin1 hin2 hnd2

theorem paramsLst_refl (l : URIParamsLst) (b : Buf)
    (hin : ∀ p ∈ l.plist, ParamIn b p) (hnd : ParamsNoDup b l.plist) :
    uriParamsLstEq l b l b = some true := uriParamsLstEq_refl l b hin hnd

theorem paramsLst_symm (l1 : URIParamsLst) (b1 : Buf) (l2 : URIParamsLst) (b2 : Buf)
    (hin1 : ∀ p ∈ l1.plist, ParamIn b1 p) (hin2 : ∀ p ∈ l2.plist, ParamIn b2 p)
    (hnd1 : ParamsNoDup b1 l1.plist) (hnd2 : ParamsNoDup b2 l2.plist) :
    uriParamsLstEq l1 b1 l2 b2 = uriParamsLstEq l2 b2 l1 b1 :=
  uriParamsLstEq_symm l1 b1 l2 b2 hin1 hin2 hnd1 hnd2

/-- independent of the order of the parameters of either list -/
theorem paramsLst_order (l1 l1' l2 l2' : URIParamsLst) (b1 b2 : Buf)
    (ht1 : l1.types = l1'.types) (ht2 : l2.types = l2'.types)
    (hp1 : l1.plist.Perm l1'.plist) (hp2 : l2.plist.Perm l2'.plist)
    (hin1 : ∀ p ∈ l1.plist, ParamIn b1 p) (hin2 : ∀ p ∈ l2.plist, ParamIn b2 p)
    (hnd2 : ParamsNoDup b2 l2.plist) :
    uriParamsLstEq l1 b1 l2 b2 = uriParamsLstEq l1' b1 l2' b2 :=
  uriParamsLstEq_perm l1 l1' l2 l2' b1 b2 ht1 ht2 hp1 hp2 hin1 hin2 hnd2

/-- independent of order and of the letter case of parameter names and values (the lists may live in different
    buffers) -/
theorem paramsLst_order_case (l1 l1' l2 l2' : URIParamsLst) (b1 b1' b2 b2' : Buf)
    (ht1 : l1.types = l1'.types) (ht2 : l2.types = l2'.types)
    (hs1 : ParamsSim b1 l1.plist b1' l1'.plist) (hs2 : ParamsSim b2 l2.plist b2' l2'.plist)
    (hnd2 : ParamsNoDup b2 l2.plist) (hnd2' : ParamsNoDup b2' l2'.plist) :
    uriParamsLstEq l1 b1 l2 b2 = uriParamsLstEq l1' b1' l2' b2' :=
  uriParamsLstEq_congr l1 l1' l2 l2' b1 b1' b2 b2' ht1 ht2 hs1 hs2 hnd2 hnd2'

/-- user, ttl, method, maddr must be present in both lists or in neither -/
theorem paramsLst_presence (l1 : URIParamsLst) (b1 : Buf) (l2 : URIParamsLst) (b2 : Buf)
    (h : uriParamsLstEq l1 b1 l2 b2 = some true) (t1 : TypesOk l1) (t2 : TypesOk l2) :
    ∀ x ∈ [URIParamUserF, URIParamTTLF, URIParamMethodF, URIParamMaddrF],
      ((∃ p ∈ l1.plist, p.t = x) ↔ (∃ p ∈ l2.plist, p.t = x)) :=
  uriParamsLstEq_true_presence l1 b1 l2 b2 h t1 t2

/-- different presence masks: verdict "different", for all inputs, without reading any field -/
theorem paramsLst_mask_ne (l1 : URIParamsLst) (b1 : Buf) (l2 : URIParamsLst) (b2 : Buf)
    (h : (l1.types &&& uriParamsBMask) ≠ (l2.types &&& uriParamsBMask)) :
    uriParamsLstEq l1 b1 l2 b2 = some false := uriParamsLstEq_mask_ne l1 b1 l2 b2 h

/-! ### (4) URIHdrsLstEq -/

theorem hdrsLst_spec (l1 : URIHdrsLst) (b1 : Buf) (l2 : URIHdrsLst) (b2 : Buf)
    (hin1 : ∀ h ∈ l1.hlist, HdrIn b1 h) (hin2 : ∀ h ∈ l2.hlist, HdrIn b2 h)
    (hnd2 : HdrsNoDup b2 l2.hlist) :
    ∃ r, uriHdrsLstEq l1 b1 l2 b2 = some r ∧
      (r = true ↔ l1.hNo = l2.hNo ∧ ∀ h1 ∈ l1.hlist, ∃ h2 ∈ l2.hlist, HSame b1 h1 b2 h2) :=
  uriHdrsLstEq_spec l1 b1 l2 b2 hin1 hin2 hnd2

theorem hdrsLst_refl (l : URIHdrsLst) (b : Buf)
    (hin : ∀ h ∈ l.hlist, HdrIn b h) (hnd : HdrsNoDup b l.hlist) :
    uriHdrsLstEq l b l b = some true := uriHdrsLstEq_refl l b hin hnd

theorem hdrsLst_symm (l1 : URIHdrsLst) (b1 : Buf) (l2 : URIHdrsLst) (b2 : Buf)
    (hin1 : ∀ h ∈ l1.hlist, HdrIn b1 h) (hin2 : ∀ h ∈ l2.hlist, HdrIn b2 h)
    (hnd1 : HdrsNoDup b1 l1.hlist) (hnd2 : HdrsNoDup b2 l2.hlist) :
    uriHdrsLstEq l1 b1 l2 b2 = uriHdrsLstEq l2 b2 l1 b1 :=
  uriHdrsLstEq_symm l1 b1 l2 b2 hin1 hin2 hnd1 hnd2

theorem hdrsLst_order (l1 l1' l2 l2' : URIHdrsLst) (b1 b2 : Buf)
    (hp1 : l1.hlist.Perm l1'.hlist) (hp2 : l2.hlist.Perm l2'.hlist)
    (hin1 : ∀ p ∈ l1.hlist, HdrIn b1 p) (hin2 : ∀ p ∈ l2.hlist, HdrIn b2 p)
    (hnd2 : HdrsNoDup b2 l2.hlist) :
    uriHdrsLstEq l1 b1 l2 b2 = uriHdrsLstEq l1' b1 l2' b2 :=
  uriHdrsLstEq_perm l1 l1' l2 l2' b1 b2 hp1 hp2 hin1 hin2 hnd2

theorem hdrsLst_order_case (l1 l1' l2 l2' : URIHdrsLst) (b1 b1' b2 b2' : Buf)
    (hn1 : l1.hNo = l1'.hNo) (hn2 : l2.hNo = l2'.hNo)
    (hs1 : HdrsSim b1 l1.hlist b1' l1'.hlist) (hs2 : HdrsSim b2 l2.hlist b2' l2'.hlist)
    (hnd2 : HdrsNoDup b2 l2.hlist) (hnd2' : HdrsNoDup b2' l2'.hlist) :
    uriHdrsLstEq l1 b1 l2 b2 = uriHdrsLstEq l1' b1' l2' b2' :=
  uriHdrsLstEq_congr l1 l1' l2 l2' b1 b1' b2 b2' hn1 hn2 hs1 hs2 hnd2 hnd2'

/-! ### (5) the entry points -/

/-- URIParamsEq = ParseAllURIParams on each string (fresh 100-element list), then URIParamsLstEq -/
theorem paramsEq_agrees (b1 : Buf) (o1 : Nat) (b2 : Buf) (o2 : Nat) :
    uriParamsEq b1 o1 b2 o2 =
      if (uriParamsParse b1 o1).2.pnc then none
      else if !errOkOrEOH (uriParamsParse b1 o1).1 then some (false, (uriParamsParse b1 o1).1)
      else if (uriParamsParse b2 o2).2.pnc then none
      else if !errOkOrEOH (uriParamsParse b2 o2).1 then some (false, (uriParamsParse b2 o2).1)
      else (uriParamsLstEq (uriParamsParse b1 o1).2 b1 (uriParamsParse b2 o2).2 b2).map (fun r => (r, Err.ok)) :=
  uriParamsEq_eq b1 o1 b2 o2

theorem hdrsEq_agrees (b1 : Buf) (o1 : Nat) (b2 : Buf) (o2 : Nat) :
    uriHdrsEq b1 o1 b2 o2 =
      if !errOkOrEOH (uriHdrsParse b1 o1).1 then some (false, (uriHdrsParse b1 o1).1)
      else if !errOkOrEOH (uriHdrsParse b2 o2).1 then some (false, (uriHdrsParse b2 o2).1)
      else (uriHdrsLstEq (uriHdrsParse b1 o1).2 b1 (uriHdrsParse b2 o2).2 b2).map (fun r => (r, Err.ok)) :=
  uriHdrsEq_eq b1 o1 b2 o2

/-- URICmp is reflexive on well-formed URIs whose parameter and header strings parse, for every flag value -/
theorem cmp_refl (u : PsipURI) (b : Buf) (f : Nat) (w : URIGood u b) : uriCmp u b u b f = some true :=
  uriCmp_refl u b f w

/-- URICmp is symmetric on well-formed URIs (the parameter / header strings may fail to parse), every flag value -/
theorem cmp_symm (u1 : PsipURI) (b1 : Buf) (u2 : PsipURI) (b2 : Buf) (f : Nat) (w1 : URIWf u1 b1) (w2 : URIWf u2 b2) :
    uriCmp u1 b1 u2 b2 f = uriCmp u2 b2 u1 b1 f := uriCmp_symm u1 b1 u2 b2 f w1 w2

/-- URICmp is unaffected by the letter case of scheme (through `uriType`), host, parameter names and values, header
    names and values, and by the order of parameters and of headers -/
theorem cmp_order_case (u1 : PsipURI) (b1 : Buf) (u1' : PsipURI) (b1' : Buf) (u2 : PsipURI) (b2 : Buf)
    (u2' : PsipURI) (b2' : Buf) (f : Nat) (s1 : URISame u1 b1 u1' b1') (s2 : URISame u2 b2 u2' b2') :
    uriCmp u1 b1 u2 b2 f = uriCmp u1' b1' u2' b2' f :=
  uriCmp_congr u1 b1 u1' b1' u2 b2 u2' b2' f s1 s2

/-- URIParseCmp agrees with parsing each URI separately and calling URICmp, and hands back exactly the parsed URIs -/
theorem parseCmp_agrees (raw1 raw2 : Buf) (f : Nat) {o1 o2 : Nat} {u1 u2 : PsipURI}
    (h1 : parseURI raw1 {} = (UErr.none, o1, u1, false)) (h2 : parseURI raw2 {} = (UErr.none, o2, u2, false)) :
    uriParseCmp raw1 raw2 f = (uriCmp u1 raw1 u2 raw2 f).map (fun r => (r, UErr.none, 0, some u1, some u2)) :=
  uriParseCmp_ok raw1 raw2 f h1 h2

theorem parseCmp_err1 (raw1 raw2 : Buf) (f : Nat) {e1 : UErr} {o1 : Nat} {u1 : PsipURI}
    (h1 : parseURI raw1 {} = (e1, o1, u1, false)) (he : e1 ≠ UErr.none) :
    uriParseCmp raw1 raw2 f = some (false, e1, 0, none, none) := uriParseCmp_err1 raw1 raw2 f h1 he

theorem parseCmp_err2 (raw1 raw2 : Buf) (f : Nat) {e2 : UErr} {o1 o2 : Nat} {u1 u2 : PsipURI}
    (h1 : parseURI raw1 {} = (UErr.none, o1, u1, false)) (h2 : parseURI raw2 {} = (e2, o2, u2, false))
    (he : e2 ≠ UErr.none) :
    uriParseCmp raw1 raw2 f = some (false, e2, 1, some u1, none) := uriParseCmp_err2 raw1 raw2 f h1 h2 he

/-- the verdict of URIParseCmp is symmetric on raw URIs that parse to well-formed URIs -/
theorem parseCmp_symm (raw1 raw2 : Buf) (f : Nat) {o1 o2 : Nat} {u1 u2 : PsipURI}
    (h1 : parseURI raw1 {} = (UErr.none, o1, u1, false)) (h2 : parseURI raw2 {} = (UErr.none, o2, u2, false))
    (w1 : URIWf u1 raw1) (w2 : URIWf u2 raw2) :
    (uriParseCmp raw1 raw2 f).map (·.1) = (uriParseCmp raw2 raw1 f).map (·.1) := by
  rw [uriParseCmp_ok raw1 raw2 f h1 h2, uriParseCmp_ok raw2 raw1 f h2 h1, uriCmp_symm u1 raw1 u2 raw2 f w1 w2]
  simp only [Option.map_map]
  rfl

/-- ParseURI is unaffected by the letter case of the scheme (more generally by bit 0x20 of the first four bytes) -/
theorem parse_scheme_case (raw raw' : Buf) (pu : PsipURI) (v : SchemeCaseVariant raw raw') :
    parseURI raw' pu = parseURI raw pu := v.parse pu

/-- … and so is the complete result of URIParseCmp -/
theorem parseCmp_scheme_case (raw1 raw1' raw2 raw2' : Buf) (f : Nat)
    (v1 : SchemeCaseVariant raw1 raw1') (v2 : SchemeCaseVariant raw2 raw2')
    (a1 : AfterScheme (parseURI raw1 {}).2.2.1) (a2 : AfterScheme (parseURI raw2 {}).2.2.1) :
    uriParseCmp raw1' raw2' f = uriParseCmp raw1 raw2 f :=
  uriParseCmp_scheme_case raw1 raw1' raw2 raw2' f v1 v2 a1 a2

/-! ### tests / non-vacuity (closed computations, `decide +kernel`) -/

section Tests

def rawA : Buf := "sip:Alice:pw@Example.COM:5060;transport=udp;Foo=Bar?a=1&B=2".toUTF8.data
/-- `rawA` with scheme, host, parameter and header names / values re-cased and parameters and headers reordered -/
def rawA' : Buf := "SIP:Alice:pw@eXAMPLE.com:5060;FOO=bAR;Transport=UDP?b=2&A=1".toUTF8.data
def uA : PsipURI := (parseURI rawA {}).2.2.1
def uA' : PsipURI := (parseURI rawA' {}).2.2.1
def pA : Buf := "transport=udp;Foo=Bar".toUTF8.data
def pA' : Buf := "FOO=bAR;Transport=UDP".toUTF8.data
def hA : Buf := "a=1&B=2".toUTF8.data
def hA' : Buf := "b=2&A=1".toUTF8.data

/-- non-vacuity of `URIGood` (hence of `URIWf`, `ParamsWf`, `HdrsWf`, `ParamIn`, `ParamsNoDup`, `HdrIn`, `HdrsNoDup`):
    a URI with user, password, port, two parameters and two headers -/
theorem good_A : URIGood uA rawA :=
  { user := by decide +kernel, pass := by decide +kernel, host := by decide +kernel,
    params := ⟨pA, by decide +kernel, ⟨by decide +kernel, (fun _ => by decide +kernel), (fun _ => by decide +kernel)⟩,
      by decide +kernel⟩,
    headers := ⟨hA, by decide +kernel, ⟨(fun _ => by decide +kernel), (fun _ => by decide +kernel)⟩, by decide +kernel⟩ }

/-- non-vacuity of `URISame` (hence of `ShortSame`, `ParamsStrSim`, `HdrsStrSim`, `ParamsSim`, `HdrsSim`) -/
theorem same_A : URISame uA rawA uA' rawA' :=
  { short := ⟨by decide +kernel, by decide +kernel, by decide +kernel, by decide +kernel, by decide +kernel⟩,
    params := ⟨pA, pA', by decide +kernel, by decide +kernel,
      ⟨by decide +kernel, by decide +kernel, by decide +kernel, by decide +kernel, by decide +kernel, by decide +kernel⟩,
      by decide +kernel, by decide +kernel⟩,
    headers := ⟨hA, hA', by decide +kernel, by decide +kernel,
      ⟨by decide +kernel, by decide +kernel, by decide +kernel, by decide +kernel⟩,
      by decide +kernel, by decide +kernel⟩ }

/-- the theorems applied: rawA equals itself and its re-written form under every flag value -/
example (f : Nat) : uriCmp uA rawA uA rawA f = some true := cmp_refl uA rawA f good_A
example (f : Nat) : uriCmp uA rawA uA' rawA' f = some true := by
  rw [← cmp_order_case uA rawA uA rawA uA rawA uA' rawA' f ?_ same_A]
  · exact cmp_refl uA rawA f good_A
  · -- rawA is "the same" as itself
    exact
      { short := ⟨rfl, rfl, rfl, rfl, by decide +kernel⟩,
        params := ⟨pA, pA, by decide +kernel, by decide +kernel,
          ⟨by decide +kernel, by decide +kernel, by decide +kernel, by decide +kernel, rfl, by decide +kernel⟩,
          by decide +kernel, by decide +kernel⟩,
        headers := ⟨hA, hA, by decide +kernel, by decide +kernel,
          ⟨by decide +kernel, by decide +kernel, rfl, by decide +kernel⟩, by decide +kernel, by decide +kernel⟩ }

/-- test: the parse-and-compare entry point on the two raw strings -/
example : (uriParseCmp rawA rawA' 0).map (·.1) = some true := by decide +kernel
/-- test: it hands back the two parsed URIs -/
example : (uriParseCmp rawA rawA' 0).map (·.2.2.2) = some (some uA, some uA') := by decide +kernel

/-- non-vacuity of `TypesOk` and of the presence theorem's conclusion -/
example : TypesOk (uriParamsParse "transport=udp;user=phone;Foo=Bar;ttl=3".toUTF8.data 0).2 := by decide +kernel
/-- test: `user=` in only one URI ⇒ different -/
example : (uriParseCmp "sip:a@b;user=phone".toUTF8.data "sip:a@b".toUTF8.data 0).map (·.1) = some false := by
  decide +kernel
/-- test: a parameter outside the mask in only one URI is ignored -/
example : (uriParseCmp "sip:a@b;lr".toUTF8.data "sip:a@b".toUTF8.data 0).map (·.1) = some true := by decide +kernel

/-- test: user is case-sensitive, unless skipped -/
example : (uriParseCmp "sip:a@b".toUTF8.data "sip:A@b".toUTF8.data 0).map (·.1) = some false := by decide +kernel
example : (uriParseCmp "sip:a@b".toUTF8.data "sip:A@b".toUTF8.data URICmpSkipUser).map (·.1) = some true := by
  decide +kernel

/-- the no-duplicate side condition is NECESSARY for reflexivity (first match wins): parameters … -/
theorem refl_needs_nodup_params :
    uriParamsEq "x=1;x=2".toUTF8.data 0 "x=1;x=2".toUTF8.data 0 = some (false, Err.ok) := by decide +kernel
/-- … and headers; so does the whole comparison of `sip:a@b;x=1;x=2` with itself -/
theorem refl_needs_nodup_hdrs :
    uriHdrsEq "a=1&a=2".toUTF8.data 0 "a=1&a=2".toUTF8.data 0 = some (false, Err.ok) := by decide +kernel
example : (uriParseCmp "sip:a@b;x=1;x=2".toUTF8.data "sip:a@b;x=1;x=2".toUTF8.data 0).map (·.1) = some false := by
  decide +kernel

/-- … and for symmetry: with a repeated name the verdict depends on the argument order -/
theorem symm_needs_nodup_params :
    uriParamsEq "x=1;x=2".toUTF8.data 0 "x=1".toUTF8.data 0 = some (false, Err.ok) ∧
    uriParamsEq "x=1".toUTF8.data 0 "x=1;x=2".toUTF8.data 0 = some (true, Err.ok) := by decide +kernel
theorem symm_needs_nodup_hdrs :
    uriHdrsEq "a=1&a=2".toUTF8.data 0 "a=1&a=1".toUTF8.data 0 = some (false, Err.ok) ∧
    uriHdrsEq "a=1&a=1".toUTF8.data 0 "a=1&a=2".toUTF8.data 0 = some (true, Err.ok) := by decide +kernel

/-- non-vacuity of `SchemeCaseVariant` and `AfterScheme` -/
example : SchemeCaseVariant "sips:a@b;x=1".toUTF8.data "SiPS:a@b;x=1".toUTF8.data := by decide +kernel
example : AfterScheme (parseURI "sips:a@b;x=1".toUTF8.data {}).2.2.1 := by decide +kernel
example : AfterScheme uA := by decide +kernel

/-- non-vacuity of `FlagsLe` with a strict inclusion -/
example : FlagsLe URICmpSkipPort (URICmpSkipPort ||| URICmpSkipHeaders) := FlagsLe.of_and (by decide)

end Tests

/-! ### the parsers establish the side conditions; laws for raw strings; letter case (proved in `Sipsp.Proofs.UriCmpLink`) -/

/-- **ParseAllURIParams establishes the list hypotheses of the comparison laws** (new list of any capacity `k`, any
    flags, any verdict, any offset inside a buffer within the 65,535-byte limit): no panic; every stored parameter
    lies inside the buffer (`ParamIn`) and its recorded type is the classification of its name (`UclCls`); the type
    mask is the set of types stored (`TypesOk`) unless parameters were dropped for lack of room. -/
theorem params_parsed_wf : type_of% @Sipsp.parseAllURIParams_ucl := @Sipsp.parseAllURIParams_ucl

/-- **ParseAllURIHdrs establishes the list hypothesis of the comparison laws**: every stored header lies inside the
    buffer (`HdrIn`) -/
theorem hdrs_parsed_wf : type_of% @Sipsp.parseAllURIHdrs_ucl := @Sipsp.parseAllURIHdrs_ucl

/-- **every parameter string without duplicate names is well formed for comparison** (`ParamsWf`, the hypothesis of
    the symmetry / reflexivity laws): the no-panic and inside-the-string parts hold for EVERY string within the limit -/
theorem params_wf_of_nodup : type_of% @Sipsp.ucl_paramsWf := @Sipsp.ucl_paramsWf

/-- **every header string without duplicate names is well formed for comparison** (`HdrsWf`) -/
theorem hdrs_wf_of_nodup : type_of% @Sipsp.ucl_hdrsWf := @Sipsp.ucl_hdrsWf

/-- **every URI ParseURI accepts (sip, sips, tel; at most 65,535 bytes) whose parameter and header names are free of
    duplicates is well formed for comparison** (`URIWf`, the hypothesis of the symmetry law) -/
theorem uri_wf_of_parse : type_of% @Sipsp.ucl_uriWf := @Sipsp.ucl_uriWf

/-- **REFLEXIVITY for the raw-string entry point**: every raw URI of at most 65,535 bytes that ParseURI accepts, whose
    parameter and header lists are well formed and free of duplicate names, is equal to itself under every flag
    value; URIParseCmp reports no error and hands back the parsed URI twice. -/
theorem refl_raw : type_of% @Sipsp.uriParseCmp_refl_raw := @Sipsp.uriParseCmp_refl_raw

/-- **SYMMETRY for the raw-string entry point**: for ANY two byte strings of at most 65,535 bytes (accepted by
    ParseURI or not) the verdict of URIParseCmp does not depend on the order of the arguments, provided the accepted
    ones are free of duplicate parameter / header names -/
theorem symm_raw : type_of% @Sipsp.uriParseCmp_symm_raw := @Sipsp.uriParseCmp_symm_raw

/-- … with the complete results when both are accepted: same verdict, no error, the two parsed URIs handed back in the
    order of the arguments -/
theorem symm_raw_full : type_of% @Sipsp.uriParseCmp_symm_full := @Sipsp.uriParseCmp_symm_full

/-- … and for raw URIs: a verdict "equal" of URIParseCmp without URICmpSkipParams means that each of `user`, `ttl`,
    `method`, `maddr` is a parameter name of both URIs or of neither (at most 100 parameters each) -/
theorem presence_raw : type_of% @Sipsp.uriParseCmp_presence_raw := @Sipsp.uriParseCmp_presence_raw

/-- **LETTER CASE, ParseURI**: ParseURI returns the same result (verdict, position, all component offsets and
    lengths, port number) on two byte strings that differ only in the case of ASCII letters — anywhere: scheme, user,
    host, parameters, headers. -/
theorem parse_uri_case : type_of% @Sipsp.parseURI_case := @Sipsp.parseURI_case

/-- **LETTER CASE for the raw-string entry point**: for ANY two byte strings of at most 65,535 bytes, the complete
    result of URIParseCmp (verdict, error, index, both parsed URIs — identical objects) is unchanged when the letter
    case of either string is changed anywhere outside its user and password: scheme, host, parameter names and
    values, header names and values.  No condition on duplicates or on the lists being well formed. -/
theorem cmp_case_raw : type_of% @Sipsp.uriParseCmp_case := @Sipsp.uriParseCmp_case

/-- **HOST LETTER CASE for the raw-string entry point**: for ANY two byte strings of at most 65,535 bytes, the
    complete result of URIParseCmp (verdict, error, index, both parsed URIs) is unchanged when the letter case of
    host bytes of either string is changed — no condition on duplicates or on the lists being well formed. -/
theorem cmp_host_case_raw : type_of% @Sipsp.uriParseCmp_host_case := @Sipsp.uriParseCmp_host_case

/-- the hypothesis `UclListsOk` of reflexivity is NECESSARY: ParseURI accepts `sip:a@b;<` (it does not look inside
    the parameter string), ParseAllURIParams rejects `<`, and URIParseCmp then reports the URI different from
    itself; same for a header string -/
theorem refl_needs_lists_ok : type_of% @Sipsp.ucl_refl_needs_listsOk := @Sipsp.ucl_refl_needs_listsOk

/-- the hypothesis `UclNoDup` is necessary for reflexivity and for symmetry (names equal up to case count as
    duplicates) -/
theorem symm_needs_nodup : type_of% @Sipsp.ucl_needs_nodup := @Sipsp.ucl_needs_nodup

/-! ### the laws on URI TEXT (renderings from parts): order, letter case, user case, presence (proved in `Sipsp.Proofs.UriCmpPerm`) -/

/-- [EXPORT C15] **URIParseCmp on two renderings**: no panic, no error, both parsed URIs handed back (they are `ucpmURI`), and the
    verdict is "equal" exactly when the parts are equal in the sense of `UcpmSpec` — for every flag value -/
theorem text_spec : type_of% @Sipsp.uriParseCmp_text_spec := @Sipsp.uriParseCmp_text_spec

/-- [EXPORT C15] **(2) ORDER OF PARAMETERS AND HEADERS, on the text**: a rendering and the rendering of the same parts with the
    parameter items and / or the header items in another order compare EQUAL under `uriParseCmp` (URIParseCmp /
    URIRawCmp) for every flag set: verdict true, no error, no panic, both parsed URIs handed back. -/
theorem perm_text : type_of% @Sipsp.uriParseCmp_perm_text := @Sipsp.uriParseCmp_perm_text

/-- [EXPORT C15] **(3) LETTER CASE, on the text**: two renderings that differ only in the letter case of scheme, host, parameter
    names / values and header names / values compare EQUAL for every flag set. -/
theorem case_text : type_of% @Sipsp.uriParseCmp_case_text := @Sipsp.uriParseCmp_case_text

/-- [EXPORT C15] … and re-casing either side does not change the verdict against any third rendering -/
theorem case_text_gen : type_of% @Sipsp.uriParseCmp_case_text_gen := @Sipsp.uriParseCmp_case_text_gen

/-- [EXPORT C15] **ORDER AND LETTER CASE ON THE TEXT, general form**: the verdict of URIParseCmp on two renderings is unchanged when
    either one is replaced by a rendering of the same parts up to the order of the parameter / header items and the
    letter case of scheme, host, parameter names / values and header names / values; no panic, no error, each call
    hands back the URIs parsed from its own two texts -/
theorem congr_text : type_of% @Sipsp.uriParseCmp_congr_text := @Sipsp.uriParseCmp_congr_text

/-- [EXPORT C15] **(4) USER, on the text**: renderings with different user bytes (e.g. another letter case) compare UNEQUAL when
    the user comparison is not skipped -/
theorem user_case_text : type_of% @Sipsp.uriParseCmp_user_case_text := @Sipsp.uriParseCmp_user_case_text

/-- [EXPORT C15] **(4) PASSWORD, on the text** -/
theorem pass_case_text : type_of% @Sipsp.uriParseCmp_pass_case_text := @Sipsp.uriParseCmp_pass_case_text

/-- [EXPORT C15] **(4) … unless skipped**: renderings that agree in everything but user and password compare EQUAL when the
    flags skip each of the two that differs -/
theorem user_skip_text : type_of% @Sipsp.uriParseCmp_user_skip_text := @Sipsp.uriParseCmp_user_skip_text

/-- [EXPORT C15] **(5) PRESENCE RULE, on the text**: a rendering with a `user` / `ttl` / `method` / `maddr` parameter item (any
    letter case) and a rendering without one compare UNEQUAL, in either order, when the parameters are not skipped -/
theorem presence_text : type_of% @Sipsp.uriParseCmp_presence_text := @Sipsp.uriParseCmp_presence_text

/-- [EXPORT C15] **(5) … while a parameter with any OTHER name present in only one of the two does not matter**: a rendering and
    the rendering with one more parameter item (anywhere in the list) whose name is none of user / ttl / method /
    maddr compare EQUAL, in either order, for every flag set -/
theorem extra_param_text : type_of% @Sipsp.uriParseCmp_extra_param_text := @Sipsp.uriParseCmp_extra_param_text

end Sipsp.C15
