/-
  Property C09 — name-addr values (From / To / Contact / P-Asserted-Identity) are decomposed as written.

  The grammar (`Sipsp.Proofs.NameAddrSpec`, predicates over buffer positions):
    value   =  [display-name] "<" uri ">" [LWS] *( ";" param )  end          (`AddrPrefix`, `Run isURIch`)
            |  bare-uri [LWS] *( ";" param )  end                            (`isTok1`, `Run isTokch`)
    display-name = quoted-string name-tail | token [LWS name-tail]           (`AddrPrefix`, `NameTail`)
    name-tail    = *( token-byte | LWS | quoted-string )                      up to the "<"
    param   =  [LWS] name [ [LWS] "=" [LWS] value ] [LWS]                    (`ParamAt`, `PList`)
    value   =  1*( value-byte | quoted-string )                              (`PVal`)
    quoted-string = DQUOTE *( byte | "\" byte | LWS ) DQUOTE                 (`NaQBody`)
    end     =  [LWS] line-end not followed by SP / HT    -> verdict OK, offset after the line end
            |  [LWS] ","  (header kinds with several values: Contact, P-Asserted-Identity, …)
                                                          -> verdict "more values", offset after the comma   (`Term`)
  LWS = spaces, tabs and folds (`Lws`); line end = CR LF, lone CR or lone LF (`Eol`); names, URIs, values, quoted
  strings of ANY length and content within the byte classes `isURIch`, `isQch` (exactly the "ordinary byte" branches of
  the automaton in those states) and `isTokch`, `isPNch`, `isPVch` (the "ordinary byte" branches minus the comma).

  Proved for ALL buffers within the 65,535-byte limit, ALL offsets, ALL header kinds `h`, ALL values of that grammar,
  parsed into a new object:
  * `bracket_form`, `bracket_form_params`, `bare_uri`, `bare_uri_params`: ParseNameAddrPVal returns the verdict and
    offset of the end (`Term`), and the object is exactly `naResult`:
      Name   = from the first byte of the display name up to the "<" (quotes AND the white space in front of "<"
               included — this is what the code reports), empty when there is no display name;
      URI    = the text between "<" and ">" (brackets excluded), resp. the bare URI;
      Params = from the first byte of the first parameter name to the last byte of the last parameter (trailing
               white space excluded), empty when there are none;
      V      = from the first byte of the value ("<", the opening quote or the first token byte) to ">" resp. to the
               last byte of the last parameter;
      Type   = h; state finished; Tag / LR / Expires / Q / parameter error = `accAll` of the parameters, in order;
      parameters after a bare URI are header parameters (same treatment as after "<uri>").
  * `angle_uri_only`, `angle_uri_tag`, `quoted_name`, `token_name`: the simple shapes spelled out.
  * `param_flag`, `param_valued`, `param_tag`, `param_expires`, `param_lr`, `param_other`: what one parameter does:
    `tag=v` sets Tag to the value as written; `expires=digits` sets Expires to the decimal value saturated at 2^32-1
    (any number of digits) and the has-expires flag; `lr` (with or without value) sets the LR flag; names are compared
    case-insensitively (`cmpEqL`, see `Sipsp.cmpEqL_iff`); any other parameter leaves the object alone; the last
    occurrence of `tag` wins (`accAll` is a left fold).
  * `param_q_frac`, `param_q_int`: `q=int[.frac]` with at most three fraction digits and value at most 1 sets Q to the
    value in thousandths (`qValue`), e.g. 0.5 -> 500, 1.0 -> 1000, 0.25 -> 250.
  * `leading_lws`: linear white space in front of a value is skipped (every theorem above then applies at the first
    byte); `value_parse`: the four forms as one predicate `NAValue` (leading white space included).
  * `star_value`: `*` [LWS] line end sets the star indicator, URI = V = the `*`; `star_comma_rejected`.
  * `comma_inside_uri`, `comma_inside_quotes`: a comma between "<" and ">" or inside a quoted string is an ordinary
    byte of the grammar: values are split only at a comma in `Term` position.
  * Comma-separated lists (`ValList`: every value but the last ends with [LWS] ",", the last with the line end):
    `contact_values` / `pai_values`: ParseAllContactValues / ParseAllPAIValues return OK, the offset after the line
    end and the object `acceptAll` of the values in order, for ANY capacity of the caller's Contact array (the PAI
    array has two slots) (`new_contacts_ok`, `new_pais_ok`: a new object qualifies); `contact_count` / `pai_count`: N counts every value, also those beyond the
    array; `contact_stored`: the stored values are the values of the header, in order; `contact_max_expires`,
    `contact_min_expires`: maximum / minimum of the Expires fields of ALL values (minimum starting from 2^32-1).
  * `field_text`: a reported span `⟨i, j - i⟩` inside the buffer dereferences to the bytes `[i, j)`.
  * Further shapes (`Sipsp.Proofs.NameAddrSpec2`): `q_any_text`, `q_ok_iff`, `param_q_any`: EVERY value text of a `q`
    parameter, of any length: exactly the texts digits[.≤3 digits] with value ≤ 1 (`NqQText`; the code also takes an
    empty integer part and leading zeros: `.5` -> 500, `001` -> 1000) set Q to the value in thousandths, every other
    text leaves Q unset and sets the parameter-error indication; `bracket_params_general`, `bare_params_general`,
    `trailing_semicolon_uri`, `trailing_semicolon_params`, `empty_param_value`: a trailing ";", empty parameters ";;"
    and `name=` with an empty value are accepted (empty value = no value: only `lr` is recognised), the reported
    spans run up to and including the trailing ";" / "="; rejections with verdict and offset for the general shapes:
    `reject_uri_unterminated` (line end / second "<" inside the brackets -> bad character at that byte),
    `reject_name_quote_unterminated`, `reject_name_quote_esc_crlf`, `reject_name_without_uri`,
    `reject_param_name_bad`, `reject_param_value_bad`, `reject_param_quote_unterminated`; `empty_uri_accepted`
    (`<>` gives an empty URI span); `bytes_after_bracket_skipped(_params)`: after ">" every byte other than ";",
    LWS and (multi-valued kinds) "," is skipped; `single_valued_comma_ignored`: for From / To a comma after the
    value is NOT a separator (`From: <sip:a@b>, <sip:c@d>` is reported exactly like `<sip:a@b>` alone);
    `bare_uri_comma`, `single_valued_comma_after_ws_rejected`.
  * Several header lines of one message (`Sipsp.Proofs.HdrTyped`): `contact_lines_hno`, `contact_lines_n`,
    `contact_lines_stored`, `contact_lines_max_expires`, `contact_lines_min_expires`: after any number of Contact
    lines (each a `ValList`) parsed with one values object, HNo = number of lines, N = total number of values, the
    stored values are all values in order up to the capacity, max / min expires range over all of them;
    `block_contacts`: the same for the Contact / PAI lines of a header block parsed by ParseHeaders, whatever headers
    stand between them; `pai_lines_hno`, `pai_lines_n`.
  * The converse of the splitting clause, for ALL inputs (`Sipsp.Proofs.NaSplit`; "top level" = the automaton's own
    notion, a 9-mode byte scanner `NsTop`): `value_ends_at_first_top_comma` (verdict "more values" ⇒ the byte before the
    returned offset is a comma at top level and NO top-level comma occurs before it), `value_ok_no_top_comma` (OK ⇒
    the offset follows a line end not followed by SP / HT, and for multi-valued kinds the value has no top-level
    comma), `single_valued_never_more_values` (From / To never answer "more values", any object, any state);
    `contact_list_segments`, `pai_list_segments`, `contact_count_is_commas`, `pai_count_is_commas`,
    `contact_list_converse`, `pai_list_converse`: after OK the header value is cut at exactly its top-level commas,
    N = 1 + their number for every capacity, the stored values are the value parser's reports for the first pieces in
    order, min / max expires range over all pieces; `value_span_end`, `value_span_start`.
    Where the automaton's "top level" differs from "outside quotes and outside <…>" (all inputs pinned as tests):
    a `"` inside `<…>`, after `>` or inside a parameter NAME is an ordinary byte (`<sip:"a>,b` splits at the comma),
    a `<` after `>` is ordinary; a `"` inside a bare URI or name token does open a quoted string.
  * Stored values of several P-Asserted-Identity lines (`Sipsp.Proofs.PaiLines`): `pai_lines_stored`, `pai_lines_more`,
    `pai_lines_get`, `pai_new_lines`, `block_pais`: after any number of PAI lines with one values object the stored
    identities are the first values of ALL lines in order (two slots), `More()` ⇔ N > 2, `GetPAI 0 / 1` return them, nil
    beyond — also inside ParseHeaders blocks, whatever headers stand between the lines; `value_nonempty`: whenever
    ParseNameAddrPVal says OK / "more values" the reported value V has at least one byte (every input).
  The converse over EVERY CHUNK SCHEDULE (`Sipsp.Proofs.ResumedConverse`): `value_ends_at_first_top_comma_schedule`,
  `value_ok_no_top_comma_schedule`, `single_valued_never_more_values_schedule`, `contact_list_converse_schedule`,
  `pai_list_converse_schedule`, `*_list_segments_schedule`: a chain of resumed calls over growing prefixes ends in the
  triple of one call on the last prefix, so every statement above holds for it; and, new for every input, WHICH values
  each line contributes: `line_lists` (an accepted Contact / PAI line hands the list exactly the value parser's reports
  for the pieces of the text after the colon cut at its top-level commas; any other line leaves both lists unchanged),
  `block_lists`, `msg_lists(_init)`, and the same after every chunk schedule (`*_lists_schedule*`).
  NOT proved here (oracle / correspondence only): chains whose first call starts inside a value; commas inside parameter names / unquoted values for From / To in
  general (ordinary bytes, except that a leading comma is dropped); the partial object left behind by the
  parameter-level rejections; value lists whose values use the trailing-";" / junk-after-">" shapes; stored values of
  several PAI lines (only the counters).  Model tied to parse_from.go / parse_contact.go / parse_pai.go by the
  correspondence check.
  SCOPE NOTES after the second sceptical review (AB1): the `_init` / `_schedule_init` / `_schedule_whole` message-level
  theorems take the object of `Init` over ZERO-VALUED caller arrays (a stale finished contact slot changes the parse: `n = 1`
  with the old URI — pinned); they drop the explicit first-line conjunct of `msg_lists` (the first-line offset is then fixed
  only through the header block); in `RcLine` the colon position of the event is not tied to the one of `HsNameAt` (harmless:
  a wrong colon is refuted by the value clause); `pai_lines_stored / _more / _get / pai_new_lines` are statements about the
  fold `htLines` and become statements about the parser through `block_pais` and `msg_lists_init`; the sentence "stored
  values of several PAI lines (only the counters)" in the list below is superseded by the PaiLines section above.
  `msg_lists_*_fl` (`Sipsp.Proofs.AuditFixC`) are the message-level forms that keep the first-line conjunct.
-/
import Sipsp.Proofs.NameAddrSpec
import Sipsp.Proofs.NameAddrSpec2
import Sipsp.Proofs.HdrTyped
import Sipsp.Proofs.NaSplit
import Sipsp.Proofs.PaiLines
import Sipsp.Proofs.ResumedConverse
import Sipsp.Proofs.AuditFixC

namespace Sipsp.C09
open Sipsp

/-! ### the general theorems -/

/-- `[display-name] <uri>` followed by the end of the value -/
theorem bracket_form (h : Nat) (b : Buf) (o a g o' : Nat) (e' : Err) (nm : PField) (hfit : b.size ≤ 65535)
    (hp : AddrPrefix b o nm a) (hu : Run isURIch b (a + 1) g) (hag : a + 1 ≤ g) (hg : b[g]? = some 62)
    (T : Term h b (g + 1) o' e') :
    parseNameAddrPVal h b o {} = (o', e', naResult h nm ⟨a + 1, g - (a + 1)⟩ {} ⟨o, g + 1 - o⟩ {}) :=
  parseNameAddr_bracket h b o a g o' e' nm hfit hp hu hag hg T

/-- `[display-name] <uri> [LWS] ;param ;param …` followed by the end of the value -/
theorem bracket_form_params (h : Nat) (b : Buf) (o a g m w o' : Nat) (e' : Err) (nm : PField) (L : List PSpan)
    (hfit : b.size ≤ 65535) (hp : AddrPrefix b o nm a) (hu : Run isURIch b (a + 1) g) (hag : a + 1 ≤ g)
    (hg : b[g]? = some 62) (hl : Lws b (g + 1) m) (hm : b[m]? = some 59) (hL : PList b (m + 1) L w)
    (T : Term h b w o' e') :
    parseNameAddrPVal h b o {} =
      (o', e', naResult h nm ⟨a + 1, g - (a + 1)⟩ ⟨firstPs 0 L, w - firstPs 0 L⟩ ⟨o, w - o⟩ (accAll b L {})) :=
  parseNameAddr_bracket_params h b o a g m w o' e' nm L hfit hp hu hag hg hl hm hL T

/-- a bare URI followed by the end of the value -/
theorem bare_uri (h : Nat) (b : Buf) (o t o' : Nat) (e' : Err) (hfit : b.size ≤ 65535) {c : UInt8}
    (hc : b[o]? = some c) (h1 : isTok1 c = true) (hr : Run isTokch b (o + 1) t) (hot : o + 1 ≤ t)
    (T : Term h b t o' e') :
    parseNameAddrPVal h b o {} = (o', e', naResult h {} ⟨o, t - o⟩ {} ⟨o, t - o⟩ {}) :=
  parseNameAddr_bare h b o t o' e' hfit hc h1 hr hot T

/-- a bare URI with parameters: they are header parameters -/
theorem bare_uri_params (h : Nat) (b : Buf) (o t m w o' : Nat) (e' : Err) (L : List PSpan)
    (hfit : b.size ≤ 65535) {c : UInt8} (hc : b[o]? = some c) (h1 : isTok1 c = true)
    (hr : Run isTokch b (o + 1) t) (hot : o + 1 ≤ t) (hl : Lws b t m) (hm : b[m]? = some 59)
    (hL : PList b (m + 1) L w) (T : Term h b w o' e') :
    parseNameAddrPVal h b o {} =
      (o', e', naResult h {} ⟨o, t - o⟩ ⟨firstPs 0 L, w - firstPs 0 L⟩ ⟨o, w - o⟩ (accAll b L {})) :=
  parseNameAddr_bare_params h b o t m w o' e' L hfit hc h1 hr hot hl hm hL T

/-- the verdict is OK or "more values", as the end of the value says -/
theorem end_verdict {h : Nat} {b : Buf} {w o' : Nat} {e' : Err} (T : Term h b w o' e') :
    (e' = .ok ∧ ∃ p, Lws b w p ∧ Eol b p o') ∨
    (e' = .moreValues ∧ multipleValsOk h = true ∧ ∃ m, Lws b w m ∧ b[m]? = some 44 ∧ o' = m + 1) := by
  rcases T with ⟨p, e, c2, hl, he, _, _⟩ | ⟨m, hl, hm, hmv⟩
  · exact Or.inl ⟨rfl, p, hl, he⟩
  · exact Or.inr ⟨rfl, hmv, m, hl, hm, rfl⟩

/-! ### the simple shapes -/

/-- (1) `<uri>` alone, then CR LF (or a lone CR / LF) and a byte that is not SP / HT -/
theorem angle_uri_only (h : Nat) (b : Buf) (o g e : Nat) (hfit : b.size ≤ 65535) (h0 : b[o]? = some 60)
    (hu : Run isURIch b (o + 1) g) (hog : o + 1 ≤ g) (hg : b[g]? = some 62) (he : Eol b (g + 1) e) {c2 : UInt8}
    (h2 : b[e]? = some c2) (hw2 : isWS c2 = false) :
    parseNameAddrPVal h b o {} =
      (e, .ok, { uri := ⟨o + 1, g - (o + 1)⟩, v := ⟨o, g + 1 - o⟩, type := h, state := .fin }) :=
  parseNameAddr_bracket h b o o g e .ok {} hfit (.none h0) hu hog hg (.eol (g + 1) e c2 (Lws.nil _) he h2 hw2)

/-- (2) `<uri>;tag=value` (name `tag` in any letter case, value of value bytes), then the line end -/
theorem angle_uri_tag (h : Nat) (b : Buf) (o g eq ve e : Nat) (hfit : b.size ≤ 65535) (h0 : b[o]? = some 60)
    (hu : Run isURIch b (o + 1) g) (hog : o + 1 ≤ g) (hg : b[g]? = some 62) (hsemi : b[g + 1]? = some 59)
    (hn : Run isPNch b (g + 2) eq) (hne : g + 2 < eq) (htag : cmpEqL (b.extract (g + 2) eq) sTag = true)
    (heq : b[eq]? = some 61) {c : UInt8} (hv0 : b[eq + 1]? = some c) (hc : isPVch c = true)
    (hv : PValTail b (eq + 2) ve) (he : Eol b ve e) {c2 : UInt8} (h2 : b[e]? = some c2) (hw2 : isWS c2 = false) :
    parseNameAddrPVal h b o {} =
      (e, .ok, { uri := ⟨o + 1, g - (o + 1)⟩, params := ⟨g + 2, ve - (g + 2)⟩, tag := ⟨eq + 1, ve - (eq + 1)⟩,
                 v := ⟨o, ve - o⟩, type := h, state := .fin }) := by
  have hle := hv.le
  have hsz : ve < b.size := by obtain ⟨c0, hc0, _⟩ := he.first; exact get?_lt hc0
  have hL : PList b (g + 1 + 1) [⟨g + 2, eq, eq + 1, ve⟩] ve :=
    .last _ _ _ (.val (g + 2) eq eq (eq + 1) ve (Lws.nil _) hn hne (Lws.nil _) heq (Lws.nil _) (Or.inl ⟨c, hv0, hc, hv⟩))
  rw [parseNameAddr_bracket_params h b o o g (g + 1) ve e .ok {} _ hfit (.none h0) hu hog hg (Lws.nil _) hsemi hL
    (.eol ve e c2 (Lws.nil _) he h2 hw2)]
  rw [accAll_cons, accAll_nil, paramEffect_tag b (g + 2) eq (eq + 1) ve {} hne (by omega) (by omega) (by omega) hfit htag]
  rfl

/-- (3a) `"name" <uri>`: the reported name runs from the opening quote to the byte before `<` -/
theorem quoted_name (h : Nat) (b : Buf) (o k a g o' : Nat) (e' : Err) (hfit : b.size ≤ 65535) (h0 : b[o]? = some 34)
    (hq : NaQBody b (o + 1) k) (hl : Lws b (k + 1) a) (ha : b[a]? = some 60) (hu : Run isURIch b (a + 1) g)
    (hag : a + 1 ≤ g) (hg : b[g]? = some 62) (T : Term h b (g + 1) o' e') :
    parseNameAddrPVal h b o {} =
      (o', e', { name := ⟨o, a - o⟩, uri := ⟨a + 1, g - (a + 1)⟩, v := ⟨o, g + 1 - o⟩, type := h, state := .fin }) := by
  have hle := hl.le
  have ht : NameTail b (k + 1) a := by
    by_cases h1 : k + 1 < a
    · exact .lws _ a a 60 hl h1 ha (by decide) (.done a ha)
    · have : k + 1 = a := by omega
      rw [this]; exact .done a ha
  exact parseNameAddr_bracket h b o a g o' e' _ hfit (.quoted k a h0 hq ht) hu hag hg T

/-- (3b) `name <uri>` / `name<uri>`: the reported name runs from its first byte to the byte before `<` -/
theorem token_name (h : Nat) (b : Buf) (o t a g o' : Nat) (e' : Err) (hfit : b.size ≤ 65535) {c : UInt8}
    (h0 : b[o]? = some c) (h1 : isTok1 c = true) (hr : Run isTokch b (o + 1) t) (hot : o + 1 ≤ t) (hl : Lws b t a)
    (ha : b[a]? = some 60) (hu : Run isURIch b (a + 1) g) (hag : a + 1 ≤ g) (hg : b[g]? = some 62)
    (T : Term h b (g + 1) o' e') :
    parseNameAddrPVal h b o {} =
      (o', e', { name := ⟨o, a - o⟩, uri := ⟨a + 1, g - (a + 1)⟩, v := ⟨o, g + 1 - o⟩, type := h, state := .fin }) := by
  have hle := hl.le
  by_cases h2 : t < a
  · exact parseNameAddr_bracket h b o a g o' e' _ hfit
      (.token t a a c 60 h0 h1 hr hot hl h2 ha (by decide) (by decide) (.done a ha)) hu hag hg T
  · have : t = a := by omega
    subst this
    exact parseNameAddr_bracket h b o t g o' e' _ hfit (.tokenLt t c h0 h1 hr hot ha) hu hag hg T

/-! ### what one parameter does (`accAll` folds these over the list, first to last) -/

theorem param_flag (b : Buf) (ps pe : Nat) (a : PAcc) (h1 : ps < pe) (h3 : pe ≤ b.size) :
    paramEffect b ps pe 0 0 a = if cmpEqL (b.extract ps pe) sLr then { a with lr := true } else a :=
  paramEffect_flag b ps pe a h1 h3

theorem param_valued (b : Buf) (ps pe vs ve : Nat) (a : PAcc) (h1 : ps < pe) (h2 : vs < ve) (h3 : pe ≤ b.size)
    (h4 : ve ≤ b.size) :
    paramEffect b ps pe vs ve a =
      if cmpEqL (b.extract ps pe) sTag then { a with tag := PField.set vs ve }
      else if cmpEqL (b.extract ps pe) sExpires then
        (setExpires { (({} : PFromBody).withAcc a) with pstart := ps, pend := pe, vstart := vs, vend := ve }
          (b.extract vs ve).toList).acc
      else if cmpEqL (b.extract ps pe) sQ then
        (setQ { (({} : PFromBody).withAcc a) with pstart := ps, pend := pe, vstart := vs, vend := ve }
          (b.extract vs ve).toList).acc
      else if cmpEqL (b.extract ps pe) sLr then { a with lr := true }
      else a :=
  paramEffect_valued b ps pe vs ve a h1 h2 h3 h4

theorem param_tag (b : Buf) (ps pe vs ve : Nat) (a : PAcc) (h1 : ps < pe) (h2 : vs < ve) (h3 : pe ≤ b.size)
    (h4 : ve ≤ b.size) (hfit : b.size ≤ 65535) (hn : cmpEqL (b.extract ps pe) sTag = true) :
    paramEffect b ps pe vs ve a = { a with tag := ⟨vs, ve - vs⟩ } :=
  paramEffect_tag b ps pe vs ve a h1 h2 h3 h4 hfit hn

theorem param_expires (b : Buf) (ps pe vs ve : Nat) (a : PAcc) (h1 : ps < pe) (h2 : vs < ve) (h3 : pe ≤ b.size)
    (h4 : ve ≤ b.size) (hn : cmpEqL (b.extract ps pe) sExpires = true) (hd : AllDigits (b.extract vs ve).toList) :
    paramEffect b ps pe vs ve a =
      { a with hasExpires := true, expires := min (decOf (b.extract vs ve).toList) 4294967295 } :=
  paramEffect_expires b ps pe vs ve a h1 h2 h3 h4 hn hd

theorem param_lr (b : Buf) (ps pe vs ve : Nat) (a : PAcc) (h1 : ps < pe) (h2 : vs < ve) (h3 : pe ≤ b.size)
    (h4 : ve ≤ b.size) (hn : cmpEqL (b.extract ps pe) sLr = true) :
    paramEffect b ps pe vs ve a = { a with lr := true } :=
  paramEffect_lr b ps pe vs ve a h1 h2 h3 h4 hn

theorem param_other (b : Buf) (ps pe vs ve : Nat) (a : PAcc) (h1 : ps < pe) (h2 : vs < ve) (h3 : pe ≤ b.size)
    (h4 : ve ≤ b.size) (n1 : cmpEqL (b.extract ps pe) sTag = false) (n2 : cmpEqL (b.extract ps pe) sExpires = false)
    (n3 : cmpEqL (b.extract ps pe) sQ = false) (n4 : cmpEqL (b.extract ps pe) sLr = false) :
    paramEffect b ps pe vs ve a = a :=
  paramEffect_other b ps pe vs ve a h1 h2 h3 h4 n1 n2 n3 n4

/-! ### commas inside angle brackets and quotes do not split -/

theorem comma_inside_uri : isURIch 44 = true := by decide
theorem comma_inside_quotes : isQch 44 = true := by decide

/-! ### the `q` value -/

theorem param_q_frac (b : Buf) (ps pe vs ve : Nat) (a : PAcc) (h1 : ps < pe) (h2 : vs < ve) (h3 : pe ≤ b.size)
    (h4 : ve ≤ b.size) (hn : cmpEqL (b.extract ps pe) sQ = true) (ip fp : List UInt8)
    (hv : (b.extract vs ve).toList = ip ++ 46 :: fp) (hi : AllDigits ip) (hf : AllDigits fp) (hl : fp.length ≤ 3)
    (hu : decOf ip ≤ 1) (hone : decOf ip = 1 → decOf fp = 0) :
    paramEffect b ps pe vs ve a = { a with q := qValue ip fp } :=
  paramEffect_q_frac b ps pe vs ve a h1 h2 h3 h4 hn ip fp hv hi hf hl hu hone

theorem param_q_int (b : Buf) (ps pe vs ve : Nat) (a : PAcc) (h1 : ps < pe) (h2 : vs < ve) (h3 : pe ≤ b.size)
    (h4 : ve ≤ b.size) (hn : cmpEqL (b.extract ps pe) sQ = true) (hi : AllDigits (b.extract vs ve).toList)
    (hu : decOf (b.extract vs ve).toList ≤ 1) :
    paramEffect b ps pe vs ve a = { a with q := decOf (b.extract vs ve).toList * 1000 } :=
  paramEffect_q_int b ps pe vs ve a h1 h2 h3 h4 hn hi hu

/-! ### leading white space, the four forms as one predicate, `*` -/

theorem leading_lws (h : Nat) (b : Buf) (o0 o : Nat) (hl : Lws b o0 o) {c : UInt8} (hc : b[o]? = some c)
    (hcl : isLWSch c = false) : parseNameAddrPVal h b o0 {} = parseNameAddrPVal h b o {} :=
  parse_lead_lws h b hl hc hcl

theorem value_parse (h : Nat) (b : Buf) (o0 o' : Nat) (e' : Err) (r : PFromBody) (H : NAValue h b o0 o' e' r)
    (hfit : b.size ≤ 65535) : parseNameAddrPVal h b o0 {} = (o', e', r) :=
  H.parse hfit

theorem star_value (h : Nat) (b : Buf) (o p e : Nat) (hfit : b.size ≤ 65535) (h0 : b[o]? = some 42)
    (hl : Lws b (o + 1) p) (he : Eol b p e) {c2 : UInt8} (h2 : b[e]? = some c2) (hw2 : isWS c2 = false) :
    parseNameAddrPVal h b o {} =
      (e, .ok, { star := true, uri := ⟨o, 1⟩, v := ⟨o, 1⟩, type := h, state := .fin }) :=
  parseNameAddr_star h b o p e hfit h0 hl he h2 hw2

theorem star_comma_rejected (h : Nat) (b : Buf) (o : Nat) (h0 : b[o]? = some 42) (h1 : b[o + 1]? = some 44) :
    (parseNameAddrPVal h b o {}).2.1 = .badChar :=
  parseNameAddr_star_comma h b o h0 h1

/-- a span inside the buffer dereferences to its bytes (Go: `f.Get(buf)` does not panic and returns `buf[i:j]`) -/
theorem field_text (b : Buf) (i j : Nat) (hij : i ≤ j) (hj : j ≤ b.size) (hfit : b.size ≤ 65535) :
    PField.get? b ⟨i, j - i⟩ = some (b.extract i j) := by
  rw [field_get? b i (j - i) (by omega) hfit]
  congr 2; omega

/-! ### comma-separated lists: Contact and P-Asserted-Identity -/

theorem contact_values (b : Buf) (hfit : b.size ≤ 65535) (o o' : Nat) (rs : List PFromBody)
    (H : ValList HdrContact b o rs o') (c : PContacts) (hc : CtClean c) (hcur : c.cur = {}) :
    parseAllContactValues b o c = (o', .ok, c.acceptAll rs) :=
  parseAllContactValues_list b hfit H c hc hcur

theorem new_contacts_ok (k : Nat) :
    CtClean ({ vals := Array.replicate k {} } : PContacts) ∧ ({ vals := Array.replicate k {} } : PContacts).cur = {} :=
  ct_new_ok k

theorem contact_count (c : PContacts) (rs : List PFromBody) : (c.acceptAll rs).n = c.n + rs.length :=
  ctAcceptAll_n c rs

theorem contact_stored (c : PContacts) (rs : List PFromBody) (k : Nat) (hk : k < rs.length)
    (hin : c.n + k < c.vals.size) : (c.acceptAll rs).vals[c.n + k]! = rs[k] :=
  ctAcceptAll_stored c rs k hk hin

theorem contact_max_expires (c : PContacts) (rs : List PFromBody) :
    (c.acceptAll rs).maxExpires = rs.foldl (fun m r => max m r.expires) c.maxExpires :=
  ctAcceptAll_maxE c rs

theorem contact_min_expires (c : PContacts) (rs : List PFromBody) (hne : rs ≠ []) :
    (c.acceptAll rs).minExpires =
      rs.foldl (fun m r => min m r.expires) (if c.n == 0 then 4294967295 else c.minExpires) :=
  ctAcceptAll_minE c rs hne

theorem pai_values (b : Buf) (hfit : b.size ≤ 65535) (o o' : Nat) (rs : List PFromBody)
    (H : ValList HdrPAI b o rs o') (c : PPAIs) (hc : PaClean c) (hcur : c.cur = {}) :
    parseAllPAIValues b o c = (o', .ok, c.acceptAll rs) :=
  parseAllPAIValues_list b hfit H c hc hcur

theorem new_pais_ok : PaClean ({} : PPAIs) ∧ ({} : PPAIs).cur = {} := pa_new_ok

theorem pai_count (c : PPAIs) (rs : List PFromBody) : (c.acceptAll rs).n = c.n + rs.length :=
  paAcceptAll_n c rs

/-! ### non-vacuity and tests -/

/-- the hypotheses of `bracket_form_params` are satisfiable: `"A" <s:b>;tag=x;lr CR LF X` as a From value
    (quoted display name, white space before `<`, a valued and a value-less parameter) -/
example : parseNameAddrPVal HdrFrom "\"A\" <s:b>;tag=x;lr\r\nX".toUTF8.data 0 {} =
    (20, .ok, naResult HdrFrom ⟨0, 4⟩ ⟨5, 3⟩ ⟨10, 8⟩ ⟨0, 18⟩
      (accAll "\"A\" <s:b>;tag=x;lr\r\nX".toUTF8.data [⟨10, 13, 14, 15⟩, ⟨16, 18, 0, 0⟩] {})) := by
  have hq : NaQBody "\"A\" <s:b>;tag=x;lr\r\nX".toUTF8.data 1 2 := .ch 1 2 65 (by decide) (by decide) (.nil 2 (by decide))
  have ht : NameTail "\"A\" <s:b>;tag=x;lr\r\nX".toUTF8.data 3 4 :=
    .lws 3 4 4 60 (.ws 3 4 32 (by decide) (by decide) (.nil 4)) (by decide) (by decide) (by decide) (.done 4 (by decide))
  have hL : PList "\"A\" <s:b>;tag=x;lr\r\nX".toUTF8.data (9 + 1) [⟨10, 13, 14, 15⟩, ⟨16, 18, 0, 0⟩] 18 :=
    .cons 10 15 15 18 _ _
      (.val 10 13 13 14 15 (.nil 10) (run_of_check (by decide)) (by decide) (.nil 13) (by decide) (.nil 14)
        (Or.inl ⟨120, by decide, by decide, .nil 15⟩))
      (.nil 15) (by decide)
      (.last 16 18 _ (.flag 16 18 (.nil 16) (run_of_check (by decide)) (by decide)))
  exact bracket_form_params HdrFrom _ 0 4 8 9 18 20 .ok ⟨0, 4⟩ _ (by decide)
    (.quoted 2 4 (by decide) hq ht) (run_of_check (by decide)) (by decide) (by decide) (.nil 9) (by decide) hL
    (.eol 18 20 88 (.nil 18) (.crlf 18 (by decide) (by decide)) (by decide) (by decide))

/-- … and what `accAll` is on that instance (test by evaluation) -/
example : accAll "\"A\" <s:b>;tag=x;lr\r\nX".toUTF8.data [⟨10, 13, 14, 15⟩, ⟨16, 18, 0, 0⟩] {} =
    { tag := ⟨14, 1⟩, lr := true } := by decide +kernel

/-- the hypotheses of `contact_values` are satisfiable: `a:b,<c> CR LF X` — a bare URI ended by a comma and a
    bracketed URI ended by the line end — parsed into an array of capacity 1: two values counted, OK, offset 9 -/
example : (parseAllContactValues "a:b,<c>\r\nX".toUTF8.data 0 { vals := Array.replicate 1 {} }).1 = 9 ∧
    (parseAllContactValues "a:b,<c>\r\nX".toUTF8.data 0 { vals := Array.replicate 1 {} }).2.1 = .ok ∧
    (parseAllContactValues "a:b,<c>\r\nX".toUTF8.data 0 { vals := Array.replicate 1 {} }).2.2.n = 2 := by
  have v1 : NAValue HdrContact "a:b,<c>\r\nX".toUTF8.data 0 4 .moreValues
      (naResult HdrContact {} ⟨0, 3 - 0⟩ {} ⟨0, 3 - 0⟩ {}) :=
    Or.inr (Or.inr (Or.inl ⟨0, 3, 97, .nil 0, by decide, by decide, run_of_check (by decide), by decide,
      .comma 3 (.nil 3) (by decide) (by decide), rfl⟩))
  have v2 : NAValue HdrContact "a:b,<c>\r\nX".toUTF8.data 4 9 .ok
      (naResult HdrContact {} ⟨4 + 1, 6 - (4 + 1)⟩ {} ⟨4, 6 + 1 - 4⟩ {}) :=
    Or.inl ⟨4, 4, 6, {}, .nil 4, .none (by decide), run_of_check (by decide), by decide, by decide,
      .eol 7 9 88 (.nil 7) (.crlf 7 (by decide) (by decide)) (by decide) (by decide), rfl⟩
  have hlist := ValList.cons 0 4 9 _ _ v1 (.last 4 9 _ v2)
  have hnew := new_contacts_ok 1
  rw [contact_values _ (by decide) 0 9 _ hlist _ hnew.1 hnew.2]
  exact ⟨rfl, rfl, by rw [contact_count]; rfl⟩

/-- tests (evaluation of the model on concrete inputs, not proofs of the property): display name, commas and `;`
    inside the brackets, white space around `;` and `=`, upper-case `Q`, saturating expires, comma after the value -/
example : (parseNameAddrPVal HdrContact "Bob <sip:b@h;x=1,y> ; Q = 0.5 ;expires=4294967299, <z>\r\nX".toUTF8.data 0 {}) =
    (50, .moreValues, { name := ⟨0, 4⟩, uri := ⟨5, 13⟩, params := ⟨22, 27⟩, v := ⟨0, 49⟩, q := 500, hasExpires := true, expires := 4294967295, type := HdrContact, state := .fin }) := by
  decide +kernel

/-- test: bare URI, quoted tag value containing `;`, a fold before the line end -/
example : (parseNameAddrPVal HdrTo "sip:b@h;tag=\"a;b\"\r\n \r\nX".toUTF8.data 0 {}) =
    (22, .ok, { uri := ⟨0, 7⟩, params := ⟨8, 9⟩, tag := ⟨12, 5⟩, v := ⟨0, 17⟩, type := HdrTo, state := .fin }) := by
  decide +kernel

example : (parseNameAddrPVal HdrContact "*\r\nX".toUTF8.data 0 {}).2.2.star = true := by decide +kernel

/-! ### further shapes: every q text, trailing ';' and empty values, rejections, bytes after '>', commas in single-valued kinds (proved in `Sipsp.Proofs.NameAddrSpec2`) -/

/-- **the `q` value, every text**: either the text is a `q` text (`NqQText`: digits, optionally a dot and at most three
    digits, value at most 1 — the integer part may be empty or have leading zeros) and Q is set to its value in
    thousandths, nothing else changes; or it is not, Q is left alone and the parameter-error indication is set: one of
    "not a number", "too long", "bad value" with the offset of the START of the value — except for more than three bytes
    after the first dot: "too long" with the offset of the END of the value. -/
theorem q_any_text : type_of% @Sipsp.nq_setQ_total := @Sipsp.nq_setQ_total

/-- **iff**: on an object without a pending parameter error, `setQ` leaves the error indication clear exactly for the
    `q` texts -/
theorem q_ok_iff : type_of% @Sipsp.nq_setQ_ok_iff := @Sipsp.nq_setQ_ok_iff

/-- **`q=value`, every value**: lifted to the effect of the parameter on the object -/
theorem param_q_any : type_of% @Sipsp.nq_param_q_any := @Sipsp.nq_param_q_any

/-- **`[display-name] <uri> [LWS] ;` and ANY generalised parameter list** (`NqParams`: parameters with / without value,
    empty values `name=`, empty parameters `;;`, trailing `;`): accepted; the parameter span runs from the first byte of
    the first parameter name to `ve` (empty if there is no named parameter), the value from its first byte to `ve` -/
theorem bracket_params_general : type_of% @Sipsp.n2_bracket_params := @Sipsp.n2_bracket_params

/-- **bare URI `[LWS] ;` and ANY generalised parameter list**: they are header parameters -/
theorem bare_params_general : type_of% @Sipsp.n2_bare_params := @Sipsp.n2_bare_params

/-- `<uri> ;` and the line end: accepted, no parameters; the reported value INCLUDES the `;` -/
theorem trailing_semicolon_uri : type_of% @Sipsp.n2_uri_trailing_semi := @Sipsp.n2_uri_trailing_semi

/-- `<uri> ;params ;` and the line end: accepted; the reported parameter span and value INCLUDE the trailing `;` (and
    the white space in front of it) -/
theorem trailing_semicolon_params : type_of% @Sipsp.n2_params_trailing_semi := @Sipsp.n2_params_trailing_semi

/-- `<uri> ;name=` and the line end (an `=` without a value as the only parameter): accepted; the parameter acts like
    `;name` (only `lr` is recognised: `tag=`, `q=`, `expires=` set nothing and raise no error); the reported spans
    INCLUDE the `=` -/
theorem empty_param_value : type_of% @Sipsp.n2_empty_value := @Sipsp.n2_empty_value

/-- **unterminated `<` / a second `<`**: `[display-name] <` followed by URI bytes and then — instead of `>` — a space,
    a tab, a CR, a LF (the line end) or another `<`: verdict "bad character", the offset is that of the offending byte
    (inside the value), the object is left in the "inside the URI" state with only the display name recorded -/
theorem reject_uri_unterminated : type_of% @Sipsp.n3_uri_unterminated := @Sipsp.n3_uri_unterminated

/-- **empty URI `<>`**: NOT rejected — the value is accepted with an empty URI span (instance of the bracket form) -/
theorem empty_uri_accepted : type_of% @Sipsp.n3_empty_uri := @Sipsp.n3_empty_uri

/-- **unterminated quoted string in the display name**: a quote opens at `k` (at the start of the value or after name
    tokens / closed quoted strings) and the line ends before it is closed: verdict "bad header" (ErrHdrBad), the
    returned offset is the one after the line end (it is NOT the offset of the quote), nothing but the start of the
    value is recorded -/
theorem reject_name_quote_unterminated : type_of% @Sipsp.n3_name_quote_unterminated := @Sipsp.n3_name_quote_unterminated

/-- … and a backslash in front of the CR / LF inside it: "bad character" at the CR / LF -/
theorem reject_name_quote_esc_crlf : type_of% @Sipsp.n3_name_quote_esc_crlf := @Sipsp.n3_name_quote_esc_crlf

/-- **a display name that is never followed by `<uri>`** (`Bob sip:a@b`, `"Bob" sip:a@b`, … — two or more tokens /
    quoted strings and then the line end): verdict "bad header" (ErrHdrBad), offset after the line end -/
theorem reject_name_without_uri : type_of% @Sipsp.n3_name_without_uri := @Sipsp.n3_name_without_uri

/-- **`<` or `>` where a parameter name is expected or inside a parameter name** (after any number of well-formed
    parameters): "bad character" at that byte -/
theorem reject_param_name_bad : type_of% @Sipsp.n3_param_name_bad := @Sipsp.n3_param_name_bad

/-- **`=`, `<` or `>` inside (or in place of) a parameter value**: "bad character" at that byte -/
theorem reject_param_value_bad : type_of% @Sipsp.n3_param_value_bad := @Sipsp.n3_param_value_bad

/-- **unterminated quoted string in a parameter value** (the quote opens at `k`, at the start of the value or after
    well-formed value text): verdict "bad header" (ErrHdrBad), offset after the line end -/
theorem reject_param_quote_unterminated : type_of% @Sipsp.n3_param_quote_unterminated := @Sipsp.n3_param_quote_unterminated

/-- **`[display-name] <uri>` followed by ignored bytes** and the end of the value: accepted exactly like `<uri>` alone;
    the ignored bytes are in no reported span (the value ends at the `>`). A second `<…>` after the first is such a
    run of ignored bytes. -/
theorem bytes_after_bracket_skipped : type_of% @Sipsp.n4_bracket_junk := @Sipsp.n4_bracket_junk

/-- … and then `;` and a (generalised) parameter list: the parameters are attached to the FIRST `<uri>`; the reported
    value then covers the ignored bytes -/
theorem bytes_after_bracket_skipped_params : type_of% @Sipsp.n4_bracket_junk_params := @Sipsp.n4_bracket_junk_params

/-- **From / To: a comma after `<uri>` is NOT a separator and NOT an error**: `<uri> [LWS] , anything-without-";"` up to
    the line end is accepted and reported exactly as `<uri>` alone — the second value is silently ignored
    (e.g. `From: <sip:a@b>, <sip:c@d>`) -/
theorem single_valued_comma_ignored : type_of% @Sipsp.n4_single_comma_ignored := @Sipsp.n4_single_comma_ignored

/-- **From / To with a bare URI: commas inside it belong to the URI** (`From: sip:a@b,sip:c@d` reports the one URI
    `sip:a@b,sip:c@d`) -/
theorem bare_uri_comma : type_of% @Sipsp.n4_bare_comma := @Sipsp.n4_bare_comma

/-- **From / To: `… ;param [=value] LWS ,`** (a well-formed parameter, at least one byte of white space, a comma):
    "bad character" at the comma — whereas the same comma WITHOUT white space in front of it is taken as a byte of the
    parameter name / value -/
theorem single_valued_comma_after_ws_rejected : type_of% @Sipsp.n4_single_comma_after_ws := @Sipsp.n4_single_comma_after_ws

/-! ### several Contact / P-Asserted-Identity header lines of one message (proved in `Sipsp.Proofs.HdrTyped`) -/

/-- **`HNo` is the number of Contact header lines** -/
theorem contact_lines_hno : type_of% @Sipsp.ht_htLines_hNo := @Sipsp.ht_htLines_hNo

/-- **`N` is the total number of values of all Contact lines** (also those beyond the caller's array) -/
theorem contact_lines_n : type_of% @Sipsp.ht_htLines_n := @Sipsp.ht_htLines_n

/-- **the stored values are the values of all Contact lines, in order** (those that fit the caller's array) -/
theorem contact_lines_stored : type_of% @Sipsp.ht_htLines_stored := @Sipsp.ht_htLines_stored

/-- **the maximum expires summarises the values of all Contact lines** -/
theorem contact_lines_max_expires : type_of% @Sipsp.ht_htLines_maxE := @Sipsp.ht_htLines_maxE

/-- **the minimum expires summarises the values of all Contact lines**, starting from 2^32-1 for the first value of
    the message -/
theorem contact_lines_min_expires : type_of% @Sipsp.ht_htLines_minE := @Sipsp.ht_htLines_minE

/-- **(3) the Contact values of a whole block**: whatever other headers stand between them, the contacts object
    after the block is the old one after the Contact lines of the block, in order (`htLines`: see `ht_htLines_hNo`,
    `ht_htLines_n`, `ht_htLines_stored`, `ht_htLines_maxE`, `ht_htLines_minE`); likewise P-Asserted-Identity -/
theorem block_contacts : type_of% @Sipsp.HtBlock.contacts := @Sipsp.HtBlock.contacts

theorem pai_lines_hno : type_of% @Sipsp.ht_paLines_hNo := @Sipsp.ht_paLines_hNo

theorem pai_lines_n : type_of% @Sipsp.ht_paLines_n := @Sipsp.ht_paLines_n

/-! ### split only at top-level commas: the converse, for ALL inputs (proved in `Sipsp.Proofs.NaSplit`) -/

/-- **(1a)** "more values": the byte before the returned offset is a comma, it is at top level, and it is the FIRST
    top-level comma of the text that starts at `o` -/
theorem value_ends_at_first_top_comma : type_of% @Sipsp.ns_value_more := @Sipsp.ns_value_more

/-- **(1b)** OK: the returned offset is the one after the line end of the header, and (header kinds with several
    values) there is no top-level comma before it -/
theorem value_ok_no_top_comma : type_of% @Sipsp.ns_value_ok := @Sipsp.ns_value_ok

/-- **the converse of the splitting rule, value level, any object that is at the start of a value** -/
theorem value_split_any_init_object : type_of% @Sipsp.ns_parse := @Sipsp.ns_parse

/-- **(3)** a header kind with a single value (From, To, …): the verdict is never "more values", whatever the input
    and whatever object is passed in -/
theorem single_valued_never_more_values : type_of% @Sipsp.ns_single_never_more := @Sipsp.ns_single_never_more

/-- **(2) ParseAllContactValues, converse**: whenever it answers OK — any buffer, any offset, any capacity — the text
    it consumed is cut at its top-level commas into pieces (`NsSegs`), and the object is the old one after accepting,
    in order, exactly the values the value parser reports for those pieces -/
theorem contact_list_segments : type_of% @Sipsp.parseAllContactValues_segs := @Sipsp.parseAllContactValues_segs

/-- **(2) ParseAllPAIValues, converse** (no accepted value is `*`) -/
theorem pai_list_segments : type_of% @Sipsp.parseAllPAIValues_segs := @Sipsp.parseAllPAIValues_segs

/-- **(2) the value count**: after ParseAllContactValues answered OK, `N` has grown by 1 + the number of top-level
    commas of the consumed text — for every capacity of the caller's array -/
theorem contact_count_is_commas : type_of% @Sipsp.parseAllContactValues_count := @Sipsp.parseAllContactValues_count

theorem pai_count_is_commas : type_of% @Sipsp.parseAllPAIValues_count := @Sipsp.parseAllPAIValues_count

/-- **(2) ParseAllContactValues on a new object of ANY capacity `cap`, converse direction.**  If the call answers OK
    with offset `o'`, then there is a list `L` of pieces (start offset, reported value) such that
    * `NsSegs`: the pieces tile the text from `o`: each but the last is closed by the FIRST top-level comma after its
      start (the next piece starts right after it), the last has no top-level comma and is closed by the line end of the
      header, `o'` being the offset after it; the value of a piece is what the value parser reports at its start;
    * `NsVSpans`: each reported `V` lies inside its piece, before the closing comma; it starts at the first byte of
      the piece that is not white space / a line-end byte;
    * `N` = number of pieces = 1 + number of top-level commas of the text `[o, o')` — also beyond the capacity;
    * the stored values are the values of the first `cap` pieces, in order;
    * max / min expires summarise ALL pieces. -/
theorem contact_list_converse : type_of% @Sipsp.parseAllContactValues_new_converse := @Sipsp.parseAllContactValues_new_converse

/-- **(2) ParseAllPAIValues on a new object, converse direction** (two slots; `N` counts all pieces) -/
theorem pai_list_converse : type_of% @Sipsp.parseAllPAIValues_new_converse := @Sipsp.parseAllPAIValues_new_converse

/-- where the reported value ends: on "more values" at or before the comma; on OK at or before a run of white space /
    line-end bytes that reaches the returned offset -/
theorem value_span_end : type_of% @Sipsp.ns_value_vend := @Sipsp.ns_value_vend

/-- **the reported value starts at the first byte of the piece that is not white space / a line-end byte** (header
    kinds with several values; buffers within the 65,535-byte limit) -/
theorem value_span_start : type_of% @Sipsp.ns_value_lead := @Sipsp.ns_value_lead

/-! ### the link to the header parser (the 'several lines' theorems above are about the fold; this ties it to ParseHdrLine / ParseHeaders) (proved in `Sipsp.Proofs.HdrTyped`) -/

/-- **Contact**: name, colon, a comma-separated list of name-addr values of the C09 grammar ending with the line end.
    The header's value runs from the start of the first value to the end of the last one (`htSpan`, see
    `ht_lhv_line`); the contacts object is `htLine` of the old one: header counter bumped, values accepted in order. -/
theorem contact_line_through_hdrline : type_of% @Sipsp.ht_contact_values := @Sipsp.ht_contact_values

/-- **To** -/
theorem to_value_through_hdrline : type_of% @Sipsp.ht_to_value := @Sipsp.ht_to_value

/-- **ParseHeaders on a well-formed block with a values object**: one header per line, in order (generic and typed
    lines mixed), the values object as left by the typed lines, then the end of the block -/
theorem block_through_parseheaders : type_of% @Sipsp.ht_parseHeaders_block := @Sipsp.ht_parseHeaders_block

/-! ### stored values of several P-Asserted-Identity lines (proved in `Sipsp.Proofs.PaiLines`) -/

/-- **the stored identities are the values of ALL P-Asserted-Identity lines, in order** (those that fit the array: the
    Go type has a fixed array of two) — for any object the lines are parsed into, whatever it already holds -/
theorem pai_lines_stored : type_of% @Sipsp.pl_lines_stored := @Sipsp.pl_lines_stored

/-- **`More()`** ⇔ the lines carry more values than the array holds -/
theorem pai_lines_more : type_of% @Sipsp.pl_lines_more := @Sipsp.pl_lines_more

/-- **`GetPAI(k)`** after the lines, on an object that held no value before: the `k`-th value of all lines, for `k`
    below the capacity; nil from `min (N, capacity)` on -/
theorem pai_lines_get : type_of% @Sipsp.pl_lines_getPAI := @Sipsp.pl_lines_getPAI

/-- **a new P-Asserted-Identity object (two slots) after any number of lines**: `GetPAI 0` / `GetPAI 1` are the first
    two values of ALL lines in order, `More()` ⇔ more than two values, `N` counts every value, `HNo` every line -/
theorem pai_new_lines : type_of% @Sipsp.pl_new_lines := @Sipsp.pl_new_lines

/-- **the P-Asserted-Identity values of a whole header block** parsed by ParseHeaders with a values object whose
    identity list is new: whatever other headers stand between the P-Asserted-Identity lines, `HNo` = their number,
    `N` = the total number of their values, `GetPAI 0 / 1` = the first two values of all of them in order, `More()` ⇔
    more than two values -/
theorem block_pais : type_of% @Sipsp.HtBlock.pl_pais := @Sipsp.HtBlock.pl_pais

/-- **a completed name-addr value is never empty**: whenever ParseNameAddrPVal, started on a new object, says OK or
    "more values", the reported value span `V` has at least one byte — every header kind, EVERY input within the
    65,535-byte limit -/
theorem value_nonempty : type_of% @Sipsp.pn_value_nonempty := @Sipsp.pn_value_nonempty

/-! ### the splitting converse over every chunk schedule; which values each Contact / PAI line of a block / message contributes (proved in `Sipsp.Proofs.ResumedConverse`) -/

/-- **(2a) `value_ends_at_first_top_comma` over EVERY chunk schedule**: if the chain of resumed calls of
    ParseNameAddrPVal (new object; the buffers `l` are growing prefixes, the last one is `B`) ends with "more values" at
    `o'`, then in the WHOLE buffer `B`: the kind has several values, the byte before `o'` is a comma at top level of the
    text that starts at `o`, and no top-level comma occurs before it; the object is the one ONE call on `B` reports -/
theorem value_ends_at_first_top_comma_schedule : type_of% @Sipsp.rc_value_more_schedule := @Sipsp.rc_value_more_schedule

/-- **(2b) `value_ok_no_top_comma` over EVERY chunk schedule**: the chain ends with OK at `o'` ⇒ in the whole buffer
    `o'` follows a line end not followed by SP / HT and (kinds with several values) no top-level comma occurs in
    `[o, o')`; the object is the one ONE call on `B` reports -/
theorem value_ok_no_top_comma_schedule : type_of% @Sipsp.rc_value_ok_schedule := @Sipsp.rc_value_ok_schedule

/-- a kind with a single value never answers "more values", also at the end of a chain of resumed calls -/
theorem single_valued_never_more_values_schedule : type_of% @Sipsp.rc_single_never_more_schedule := @Sipsp.rc_single_never_more_schedule

/-- **(1) `contact_list_converse` over EVERY chunk schedule.**  `l` = growing prefixes of the buffer `B` (its last
    element), `B` within the 65,535-byte limit, a new contacts object over a cleared array of ANY capacity `cap`, start
    offset inside the first chunk.  If the LAST call of the chain of resumed calls answers OK at `o'` with object `c'`,
    then `c'` is the object of ONE call on `B`, and in `B` there is a list `L` of pieces (start, reported value):
    the value text is cut at exactly its top-level commas (`NsSegs`), every reported `V` lies inside its piece and starts
    at its first non-white-space byte, `N` = number of pieces = 1 + number of top-level commas of `[o, o')`, the stored
    values are the reports for the first `cap` pieces in order, max / min expires range over ALL pieces. -/
theorem contact_list_converse_schedule : type_of% @Sipsp.rc_contact_list_converse_schedule := @Sipsp.rc_contact_list_converse_schedule

/-- **(1) `pai_list_converse` over EVERY chunk schedule** (two slots; `N` counts all pieces; no accepted value is `*`) -/
theorem pai_list_converse_schedule : type_of% @Sipsp.rc_pai_list_converse_schedule := @Sipsp.rc_pai_list_converse_schedule

/-- the segments and the count alone (no size limit on the buffer) -/
theorem contact_list_segments_schedule : type_of% @Sipsp.rc_contact_list_segments_schedule := @Sipsp.rc_contact_list_segments_schedule

theorem pai_list_segments_schedule : type_of% @Sipsp.rc_pai_list_segments_schedule := @Sipsp.rc_pai_list_segments_schedule

/-- **ONE call of ParseHdrLine, new header object, values object whose two lists are between lines (`HtReady`; a new
    values object qualifies), EVERY input within the 65,535-byte limit**: an accepted line has a name and type that are
    right (`HsNameAt`) and did to the two value lists what `RcLine` says -/
theorem line_lists : type_of% @Sipsp.rc_line_lists := @Sipsp.rc_line_lists

/-- **ONE call of ParseHeaders, a values object whose two lists are between lines, EVERY input ≤ 65,535 bytes**: if
    the verdict is OK (or "empty") the accepted text is a chain of lines, each with the right name and type, and for
    every Contact / P-Asserted-Identity line the values handed to the list object are exactly the value parser's
    reports for the pieces of that line's value (cut at its top-level commas); the other lines leave both lists alone -/
theorem block_lists : type_of% @Sipsp.rc_block_lists := @Sipsp.rc_block_lists

/-- **ONE call of ParseSIPMsg from the initial state** (header list in the state of a new one, nothing counted yet, the two value
    lists between lines; EVERY input ≤ 65,535 bytes): if the call ends OK, the first line ended at `o1` and the header block
    `[o1, e)` is a chain of accepted lines in which every Contact / P-Asserted-Identity line handed exactly the pieces of
    its value to the list objects found in the final message object -/
theorem msg_lists : type_of% @Sipsp.rc_msg_lists := @Sipsp.rc_msg_lists

/-- **(3) ONE call of ParseSIPMsg on an object produced by Init** (any previous contents, caller arrays of any capacity
    or none), EVERY input ≤ 65,535 bytes: if the call ends OK there are the end `o1` of the first line, the end `e` of the
    header block, the reported headers `hs` (at least one) and for every header line what it was for the value lists
    (`RcBlock`): every Contact / P-Asserted-Identity line handed to the list exactly the value parser's reports for the
    pieces of its value, cut at the top-level commas; the final contacts / identities objects are the NEW ones after
    exactly these lines, in order (`htLines`; so `ht_htLines_n`, `ht_htLines_stored`, `ht_htLines_maxE / _minE`,
    `pl_lines_stored`, `pl_lines_getPAI` read them off) -/
theorem msg_lists_init : type_of% @Sipsp.rc_msg_lists_init := @Sipsp.rc_msg_lists_init

/-- **(3) ParseHdrLine over EVERY chunk schedule** (new header object; a values object that is legitimate at `o` and
    whose two lists are between lines — a new one of any capacity qualifies: `rc_newHv_ok`): if the chain of resumed
    calls ends OK at `e`, then in the WHOLE buffer `B` the line has a name and a type that are right, and
    * if it is a Contact (P-Asserted-Identity) line, the text after the colon is cut at exactly its top-level commas and
      the values handed to the list object are the value parser's reports for the pieces, in order (`RcLine`),
    * otherwise both lists are exactly as before —
    wherever the calls were suspended: inside the name, a quoted string, a URI, a parameter, the line end. -/
theorem line_lists_schedule : type_of% @Sipsp.rc_line_lists_schedule := @Sipsp.rc_line_lists_schedule

/-- **(3) ParseHeaders over EVERY chunk schedule, new header list of any capacity `kh`, new values object with a
    contact array of any capacity `kc`**: if the chain of resumed calls ends OK at `e`, then in the WHOLE buffer `B` the
    accepted text is a chain of lines (`RcBlock`): for each Contact / P-Asserted-Identity line the values handed to the
    list are exactly the value parser's reports for the pieces of the line's value (cut at its top-level commas, in
    order), all other lines leave the lists alone; hence (`RcBlock.lists`) the final contacts / identities objects are
    the new ones after exactly these lines; the header list is what accepting the reported headers produces. -/
theorem block_lists_schedule : type_of% @Sipsp.rc_block_lists_schedule := @Sipsp.rc_block_lists_schedule

/-- **(3) ParseSIPMsg from Init over EVERY chunk schedule** (growing prefixes within the 65,535-byte limit, every flag
    word, every capacity): if the chain of resumed calls ends OK, the statement of `rc_msg_lists_init` holds for the final
    message object, in the buffer `b` of the call that finished — a prefix of the whole buffer `B`, so every byte and
    every span of `b` is one of `B` -/
theorem msg_lists_schedule_init : type_of% @Sipsp.rc_msg_lists_schedule_init := @Sipsp.rc_msg_lists_schedule_init

/-- **(3) ParseSIPMsg from Init over EVERY chunk schedule, stated in the WHOLE buffer `B`** (the last element of the
    growing list `l`; every chunk within the 65,535-byte limit, every flag word, caller arrays of any capacity or none):
    if the chain of resumed calls ends OK with the object `m'`, there are the reported headers `hs` (at least one) and,
    line by line, what each accepted header line of `B` was for the value lists (`RcBlock B …`): every Contact /
    P-Asserted-Identity line handed to its list exactly the value parser's reports for the pieces of its value, cut at
    its top-level commas, in order; every other line left both lists alone; the contacts / identities of `m'` are the
    NEW objects after exactly these lines (`htLines` of the piece values), and the header list of `m'` is what accepting
    `hs` produces. -/
theorem msg_lists_schedule_whole : type_of% @Sipsp.rc_msg_lists_schedule_whole := @Sipsp.rc_msg_lists_schedule_whole

/-! ### message-level list statements that keep the first-line conjunct (proved in `Sipsp.Proofs.AuditFixC`) -/

/-- **ONE call of ParseSIPMsg on an object produced by Init, with the first line**: the statement of `rc_msg_lists_init`,
    and `o1` — where the header block starts — is the offset ParseFLine (run on a new first-line object at `o`)
    returns with the verdict OK -/
theorem msg_lists_init_fl : type_of% @Sipsp.afc_msg_lists_init := @Sipsp.afc_msg_lists_init

/-- **ParseSIPMsg from Init over EVERY chunk schedule, with the first line** (in the buffer `b` of the call that
    finished, a prefix of the last buffer `B`) -/
theorem msg_lists_schedule_init_fl : type_of% @Sipsp.afc_msg_lists_schedule_init := @Sipsp.afc_msg_lists_schedule_init

/-- **… stated in the WHOLE buffer `B`, with the first line**: ParseFLine on `B` itself (new first-line object, offset
    `o`) says OK at `o1`, and `RcBlock B o1 …` -/
theorem msg_lists_schedule_whole_fl : type_of% @Sipsp.afc_msg_lists_schedule_whole := @Sipsp.afc_msg_lists_schedule_whole

end Sipsp.C09
