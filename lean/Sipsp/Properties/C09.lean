/-
  Property C09 — name-addr values (From / To / Contact / P-Asserted-Identity) are decomposed as written.

  The grammar (`Sipsp.Proofs.NameAddrSpec`, predicates over buffer positions):
    value   =  [display-name] "<" uri ">" [LWS] *( ";" param )  end          (`AddrPrefix`, `Run isURIch`)
            |  bare-uri [LWS] *( ";" param )  end                            (`isTok1`, `Run isTokch`)
    display-name = quoted-string name-tail | token [LWS name-tail]           (`AddrPrefix`, `NameTail`)
    name-tail    = *( token-byte | LWS | quoted-string )                      up to the "<"
    param   =  [LWS] name [ [LWS] "=" [LWS] value ] [LWS]                    (`ParamAt`, `PList`)
    value   =  1*( value-byte | quoted-string )                              (`PVal`)
    quoted-string = DQUOTE *( byte | "\" byte | LWS ) DQUOTE                 (`NaQBody`)
    end     =  [LWS] line-end not followed by SP / HT    -> verdict OK, offset after the line end
            |  [LWS] ","  (header kinds with several values: Contact, P-Asserted-Identity, …)
                                                          -> verdict "more values", offset after the comma   (`Term`)
  LWS = spaces, tabs and folds (`Lws`); line end = CR LF, lone CR or lone LF (`Eol`); names, URIs, values, quoted
  strings of ANY length and content within the byte classes `isURIch`, `isQch` (exactly the "ordinary byte" branches of
  the automaton in those states) and `isTokch`, `isPNch`, `isPVch` (the "ordinary byte" branches minus the comma).

  Proved for ALL buffers within the 65,535-byte limit, ALL offsets, ALL header kinds `h`, ALL values of that grammar,
  parsed into a new object:
  * `bracket_form`, `bracket_form_params`, `bare_uri`, `bare_uri_params`: ParseNameAddrPVal returns the verdict and
    offset of the end (`Term`), and the object is exactly `naResult`:
      Name   = from the first byte of the display name up to the "<" (quotes AND the white space in front of "<"
               included — this is what the code reports), empty when there is no display name;
      URI    = the text between "<" and ">" (brackets excluded), resp. the bare URI;
      Params = from the first byte of the first parameter name to the last byte of the last parameter (trailing
               white space excluded), empty when there are none;
      V      = from the first byte of the value ("<", the opening quote or the first token byte) to ">" resp. to the
               last byte of the last parameter;
      Type   = h; state finished; Tag / LR / Expires / Q / parameter error = `accAll` of the parameters, in order;
      parameters after a bare URI are header parameters (same treatment as after "<uri>").
  * `angle_uri_only`, `angle_uri_tag`, `quoted_name`, `token_name`: the simple shapes spelled out.
  * `param_flag`, `param_valued`, `param_tag`, `param_expires`, `param_lr`, `param_other`: what one parameter does:
    `tag=v` sets Tag to the value as written; `expires=digits` sets Expires to the decimal value saturated at 2^32-1
    (any number of digits) and the has-expires flag; `lr` (with or without value) sets the LR flag; names are compared
    case-insensitively (`cmpEqL`, see `Sipsp.cmpEqL_iff`); any other parameter leaves the object alone; the last
    occurrence of `tag` wins (`accAll` is a left fold).
  * `param_q_frac`, `param_q_int`: `q=int[.frac]` with at most three fraction digits and value at most 1 sets Q to the
    value in thousandths (`qValue`), e.g. 0.5 -> 500, 1.0 -> 1000, 0.25 -> 250.
  * `leading_lws`: linear white space in front of a value is skipped (every theorem above then applies at the first
    byte); `value_parse`: the four forms as one predicate `NAValue` (leading white space included).
  * `star_value`: `*` [LWS] line end sets the star indicator, URI = V = the `*`; `star_comma_rejected`.
  * `comma_inside_uri`, `comma_inside_quotes`: a comma between "<" and ">" or inside a quoted string is an ordinary
    byte of the grammar: values are split only at a comma in `Term` position.
  * Comma-separated lists (`ValList`: every value but the last ends with [LWS] ",", the last with the line end):
    `contact_values` / `pai_values`: ParseAllContactValues / ParseAllPAIValues return OK, the offset after the line
    end and the object `acceptAll` of the values in order, for ANY capacity of the caller's Contact array (the PAI
    array has two slots) (`new_contacts_ok`, `new_pais_ok`: a new object qualifies); `contact_count` / `pai_count`: N counts every value, also those beyond the
    array; `contact_stored`: the stored values are the values of the header, in order; `contact_max_expires`,
    `contact_min_expires`: maximum / minimum of the Expires fields of ALL values (minimum starting from 2^32-1).
  * `field_text`: a reported span `⟨i, j - i⟩` inside the buffer dereferences to the bytes `[i, j)`.
  NOT proved here (oracle / correspondence only): `q` values outside the shape above (they go through `setQ`, see
  `param_valued`); parameter names / unquoted values / bare URIs / display-name tokens containing a comma (for the
  single-valued header kinds the code treats such a comma as an ordinary byte, except as the first byte of a token,
  where it is skipped), and a `*` as the first byte of the second token of a display name; a trailing ";" or an "="
  without value; the header count (`HNo`) and the accumulation over several Contact / PAI header lines of one message
  (that is ParseHeaders calling these functions once per line: C07 treats the generic headers only); rejection of
  ill-formed values other than `*,`.  Model tied to parse_from.go / parse_contact.go / parse_pai.go by the
  correspondence check.
-/
import Sipsp.Proofs.NameAddrSpec

namespace Sipsp.C09
open Sipsp

/-! ### the general theorems -/

/-- `[display-name] <uri>` followed by the end of the value -/
theorem bracket_form (h : Nat) (b : Buf) (o a g o' : Nat) (e' : Err) (nm : PField) (hfit : b.size ≤ 65535)
    (hp : AddrPrefix b o nm a) (hu : Run isURIch b (a + 1) g) (hag : a + 1 ≤ g) (hg : b[g]? = some 62)
    (T : Term h b (g + 1) o' e') :
    parseNameAddrPVal h b o {} = (o', e', naResult h nm ⟨a + 1, g - (a + 1)⟩ {} ⟨o, g + 1 - o⟩ {}) :=
  parseNameAddr_bracket h b o a g o' e' nm hfit hp hu hag hg T

/-- `[display-name] <uri> [LWS] ;param ;param …` followed by the end of the value -/
theorem bracket_form_params (h : Nat) (b : Buf) (o a g m w o' : Nat) (e' : Err) (nm : PField) (L : List PSpan)
    (hfit : b.size ≤ 65535) (hp : AddrPrefix b o nm a) (hu : Run isURIch b (a + 1) g) (hag : a + 1 ≤ g)
    (hg : b[g]? = some 62) (hl : Lws b (g + 1) m) (hm : b[m]? = some 59) (hL : PList b (m + 1) L w)
    (T : Term h b w o' e') :
    parseNameAddrPVal h b o {} =
      (o', e', naResult h nm ⟨a + 1, g - (a + 1)⟩ ⟨firstPs 0 L, w - firstPs 0 L⟩ ⟨o, w - o⟩ (accAll b L {})) :=
  parseNameAddr_bracket_params h b o a g m w o' e' nm L hfit hp hu hag hg hl hm hL T

/-- a bare URI followed by the end of the value -/
theorem bare_uri (h : Nat) (b : Buf) (o t o' : Nat) (e' : Err) (hfit : b.size ≤ 65535) {c : UInt8}
    (hc : b[o]? = some c) (h1 : isTok1 c = true) (hr : Run isTokch b (o + 1) t) (hot : o + 1 ≤ t)
    (T : Term h b t o' e') :
    parseNameAddrPVal h b o {} = (o', e', naResult h {} ⟨o, t - o⟩ {} ⟨o, t - o⟩ {}) :=
  parseNameAddr_bare h b o t o' e' hfit hc h1 hr hot T

/-- a bare URI with parameters: they are header parameters -/
theorem bare_uri_params (h : Nat) (b : Buf) (o t m w o' : Nat) (e' : Err) (L : List PSpan)
    (hfit : b.size ≤ 65535) {c : UInt8} (hc : b[o]? = some c) (h1 : isTok1 c = true)
    (hr : Run isTokch b (o + 1) t) (hot : o + 1 ≤ t) (hl : Lws b t m) (hm : b[m]? = some 59)
    (hL : PList b (m + 1) L w) (T : Term h b w o' e') :
    parseNameAddrPVal h b o {} =
      (o', e', naResult h {} ⟨o, t - o⟩ ⟨firstPs 0 L, w - firstPs 0 L⟩ ⟨o, w - o⟩ (accAll b L {})) :=
  parseNameAddr_bare_params h b o t m w o' e' L hfit hc h1 hr hot hl hm hL T

/-- the verdict is OK or "more values", as the end of the value says -/
theorem end_verdict {h : Nat} {b : Buf} {w o' : Nat} {e' : Err} (T : Term h b w o' e') :
    (e' = .ok ∧ ∃ p, Lws b w p ∧ Eol b p o') ∨
    (e' = .moreValues ∧ multipleValsOk h = true ∧ ∃ m, Lws b w m ∧ b[m]? = some 44 ∧ o' = m + 1) := by
  rcases T with ⟨p, e, c2, hl, he, _, _⟩ | ⟨m, hl, hm, hmv⟩
  · exact Or.inl ⟨rfl, p, hl, he⟩
  · exact Or.inr ⟨rfl, hmv, m, hl, hm, rfl⟩

/-! ### the simple shapes -/

/-- (1) `<uri>` alone, then CR LF (or a lone CR / LF) and a byte that is not SP / HT -/
theorem angle_uri_only (h : Nat) (b : Buf) (o g e : Nat) (hfit : b.size ≤ 65535) (h0 : b[o]? = some 60)
    (hu : Run isURIch b (o + 1) g) (hog : o + 1 ≤ g) (hg : b[g]? = some 62) (he : Eol b (g + 1) e) {c2 : UInt8}
    (h2 : b[e]? = some c2) (hw2 : isWS c2 = false) :
    parseNameAddrPVal h b o {} =
      (e, .ok, { uri := ⟨o + 1, g - (o + 1)⟩, v := ⟨o, g + 1 - o⟩, type := h, state := .fin }) :=
  parseNameAddr_bracket h b o o g e .ok {} hfit (.none h0) hu hog hg (.eol (g + 1) e c2 (Lws.nil _) he h2 hw2)

/-- (2) `<uri>;tag=value` (name `tag` in any letter case, value of value bytes), then the line end -/
theorem angle_uri_tag (h : Nat) (b : Buf) (o g eq ve e : Nat) (hfit : b.size ≤ 65535) (h0 : b[o]? = some 60)
    (hu : Run isURIch b (o + 1) g) (hog : o + 1 ≤ g) (hg : b[g]? = some 62) (hsemi : b[g + 1]? = some 59)
    (hn : Run isPNch b (g + 2) eq) (hne : g + 2 < eq) (htag : cmpEqL (b.extract (g + 2) eq) sTag = true)
    (heq : b[eq]? = some 61) {c : UInt8} (hv0 : b[eq + 1]? = some c) (hc : isPVch c = true)
    (hv : PValTail b (eq + 2) ve) (he : Eol b ve e) {c2 : UInt8} (h2 : b[e]? = some c2) (hw2 : isWS c2 = false) :
    parseNameAddrPVal h b o {} =
      (e, .ok, { uri := ⟨o + 1, g - (o + 1)⟩, params := ⟨g + 2, ve - (g + 2)⟩, tag := ⟨eq + 1, ve - (eq + 1)⟩,
                 v := ⟨o, ve - o⟩, type := h, state := .fin }) := by
  have hle := hv.le
  have hsz : ve < b.size := by obtain ⟨c0, hc0, _⟩ := he.first; exact get?_lt hc0
  have hL : PList b (g + 1 + 1) [⟨g + 2, eq, eq + 1, ve⟩] ve :=
    .last _ _ _ (.val (g + 2) eq eq (eq + 1) ve (Lws.nil _) hn hne (Lws.nil _) heq (Lws.nil _) (Or.inl ⟨c, hv0, hc, hv⟩))
  rw [parseNameAddr_bracket_params h b o o g (g + 1) ve e .ok {} _ hfit (.none h0) hu hog hg (Lws.nil _) hsemi hL
    (.eol ve e c2 (Lws.nil _) he h2 hw2)]
  rw [accAll_cons, accAll_nil, paramEffect_tag b (g + 2) eq (eq + 1) ve {} hne (by omega) (by omega) (by omega) hfit htag]
  rfl

/-- (3a) `"name" <uri>`: the reported name runs from the opening quote to the byte before `<` -/
theorem quoted_name (h : Nat) (b : Buf) (o k a g o' : Nat) (e' : Err) (hfit : b.size ≤ 65535) (h0 : b[o]? = some 34)
    (hq : NaQBody b (o + 1) k) (hl : Lws b (k + 1) a) (ha : b[a]? = some 60) (hu : Run isURIch b (a + 1) g)
    (hag : a + 1 ≤ g) (hg : b[g]? = some 62) (T : Term h b (g + 1) o' e') :
    parseNameAddrPVal h b o {} =
      (o', e', { name := ⟨o, a - o⟩, uri := ⟨a + 1, g - (a + 1)⟩, v := ⟨o, g + 1 - o⟩, type := h, state := .fin }) := by
  have hle := hl.le
  have ht : NameTail b (k + 1) a := by
    by_cases h1 : k + 1 < a
    · exact .lws _ a a 60 hl h1 ha (by decide) (.done a ha)
    · have : k + 1 = a := by omega
      rw [this]; exact .done a ha
  exact parseNameAddr_bracket h b o a g o' e' _ hfit (.quoted k a h0 hq ht) hu hag hg T

/-- (3b) `name <uri>` / `name<uri>`: the reported name runs from its first byte to the byte before `<` -/
theorem token_name (h : Nat) (b : Buf) (o t a g o' : Nat) (e' : Err) (hfit : b.size ≤ 65535) {c : UInt8}
    (h0 : b[o]? = some c) (h1 : isTok1 c = true) (hr : Run isTokch b (o + 1) t) (hot : o + 1 ≤ t) (hl : Lws b t a)
    (ha : b[a]? = some 60) (hu : Run isURIch b (a + 1) g) (hag : a + 1 ≤ g) (hg : b[g]? = some 62)
    (T : Term h b (g + 1) o' e') :
    parseNameAddrPVal h b o {} =
      (o', e', { name := ⟨o, a - o⟩, uri := ⟨a + 1, g - (a + 1)⟩, v := ⟨o, g + 1 - o⟩, type := h, state := .fin }) := by
  have hle := hl.le
  by_cases h2 : t < a
  · exact parseNameAddr_bracket h b o a g o' e' _ hfit
      (.token t a a c 60 h0 h1 hr hot hl h2 ha (by decide) (by decide) (.done a ha)) hu hag hg T
  · have : t = a := by omega
    subst this
    exact parseNameAddr_bracket h b o t g o' e' _ hfit (.tokenLt t c h0 h1 hr hot ha) hu hag hg T

/-! ### what one parameter does (`accAll` folds these over the list, first to last) -/

theorem param_flag (b : Buf) (ps pe : Nat) (a : PAcc) (h1 : ps < pe) (h3 : pe ≤ b.size) :
    paramEffect b ps pe 0 0 a = if cmpEqL (b.extract ps pe) sLr then { a with lr := true } else a :=
  paramEffect_flag b ps pe a h1 h3

theorem param_valued (b : Buf) (ps pe vs ve : Nat) (a : PAcc) (h1 : ps < pe) (h2 : vs < ve) (h3 : pe ≤ b.size)
    (h4 : ve ≤ b.size) :
    paramEffect b ps pe vs ve a =
      if cmpEqL (b.extract ps pe) sTag then { a with tag := PField.set vs ve }
      else if cmpEqL (b.extract ps pe) sExpires then
        (setExpires { (({} : PFromBody).withAcc a) with pstart := ps, pend := pe, vstart := vs, vend := ve }
          (b.extract vs ve).toList).acc
      else if cmpEqL (b.extract ps pe) sQ then
        (setQ { (({} : PFromBody).withAcc a) with pstart := ps, pend := pe, vstart := vs, vend := ve }
          (b.extract vs ve).toList).acc
      else if cmpEqL (b.extract ps pe) sLr then { a with lr := true }
      else a :=
  paramEffect_valued b ps pe vs ve a h1 h2 h3 h4

theorem param_tag (b : Buf) (ps pe vs ve : Nat) (a : PAcc) (h1 : ps < pe) (h2 : vs < ve) (h3 : pe ≤ b.size)
    (h4 : ve ≤ b.size) (hfit : b.size ≤ 65535) (hn : cmpEqL (b.extract ps pe) sTag = true) :
    paramEffect b ps pe vs ve a = { a with tag := ⟨vs, ve - vs⟩ } :=
  paramEffect_tag b ps pe vs ve a h1 h2 h3 h4 hfit hn

theorem param_expires (b : Buf) (ps pe vs ve : Nat) (a : PAcc) (h1 : ps < pe) (h2 : vs < ve) (h3 : pe ≤ b.size)
    (h4 : ve ≤ b.size) (hn : cmpEqL (b.extract ps pe) sExpires = true) (hd : AllDigits (b.extract vs ve).toList) :
    paramEffect b ps pe vs ve a =
      { a with hasExpires := true, expires := min (decOf (b.extract vs ve).toList) 4294967295 } :=
  paramEffect_expires b ps pe vs ve a h1 h2 h3 h4 hn hd

theorem param_lr (b : Buf) (ps pe vs ve : Nat) (a : PAcc) (h1 : ps < pe) (h2 : vs < ve) (h3 : pe ≤ b.size)
    (h4 : ve ≤ b.size) (hn : cmpEqL (b.extract ps pe) sLr = true) :
    paramEffect b ps pe vs ve a = { a with lr := true } :=
  paramEffect_lr b ps pe vs ve a h1 h2 h3 h4 hn

theorem param_other (b : Buf) (ps pe vs ve : Nat) (a : PAcc) (h1 : ps < pe) (h2 : vs < ve) (h3 : pe ≤ b.size)
    (h4 : ve ≤ b.size) (n1 : cmpEqL (b.extract ps pe) sTag = false) (n2 : cmpEqL (b.extract ps pe) sExpires = false)
    (n3 : cmpEqL (b.extract ps pe) sQ = false) (n4 : cmpEqL (b.extract ps pe) sLr = false) :
    paramEffect b ps pe vs ve a = a :=
  paramEffect_other b ps pe vs ve a h1 h2 h3 h4 n1 n2 n3 n4

/-! ### commas inside angle brackets and quotes do not split -/

theorem comma_inside_uri : isURIch 44 = true := by decide
theorem comma_inside_quotes : isQch 44 = true := by decide

/-! ### the `q` value -/

theorem param_q_frac (b : Buf) (ps pe vs ve : Nat) (a : PAcc) (h1 : ps < pe) (h2 : vs < ve) (h3 : pe ≤ b.size)
    (h4 : ve ≤ b.size) (hn : cmpEqL (b.extract ps pe) sQ = true) (ip fp : List UInt8)
    (hv : (b.extract vs ve).toList = ip ++ 46 :: fp) (hi : AllDigits ip) (hf : AllDigits fp) (hl : fp.length ≤ 3)
    (hu : decOf ip ≤ 1) (hone : decOf ip = 1 → decOf fp = 0) :
    paramEffect b ps pe vs ve a = { a with q := qValue ip fp } :=
  paramEffect_q_frac b ps pe vs ve a h1 h2 h3 h4 hn ip fp hv hi hf hl hu hone

theorem param_q_int (b : Buf) (ps pe vs ve : Nat) (a : PAcc) (h1 : ps < pe) (h2 : vs < ve) (h3 : pe ≤ b.size)
    (h4 : ve ≤ b.size) (hn : cmpEqL (b.extract ps pe) sQ = true) (hi : AllDigits (b.extract vs ve).toList)
    (hu : decOf (b.extract vs ve).toList ≤ 1) :
    paramEffect b ps pe vs ve a = { a with q := decOf (b.extract vs ve).toList * 1000 } :=
  paramEffect_q_int b ps pe vs ve a h1 h2 h3 h4 hn hi hu

/-! ### leading white space, the four forms as one predicate, `*` -/

theorem leading_lws (h : Nat) (b : Buf) (o0 o : Nat) (hl : Lws b o0 o) {c : UInt8} (hc : b[o]? = some c)
    (hcl : isLWSch c = false) : parseNameAddrPVal h b o0 {} = parseNameAddrPVal h b o {} :=
  parse_lead_lws h b hl hc hcl

theorem value_parse (h : Nat) (b : Buf) (o0 o' : Nat) (e' : Err) (r : PFromBody) (H : NAValue h b o0 o' e' r)
    (hfit : b.size ≤ 65535) : parseNameAddrPVal h b o0 {} = (o', e', r) :=
  H.parse hfit

theorem star_value (h : Nat) (b : Buf) (o p e : Nat) (hfit : b.size ≤ 65535) (h0 : b[o]? = some 42)
    (hl : Lws b (o + 1) p) (he : Eol b p e) {c2 : UInt8} (h2 : b[e]? = some c2) (hw2 : isWS c2 = false) :
    parseNameAddrPVal h b o {} =
      (e, .ok, { star := true, uri := ⟨o, 1⟩, v := ⟨o, 1⟩, type := h, state := .fin }) :=
  parseNameAddr_star h b o p e hfit h0 hl he h2 hw2

theorem star_comma_rejected (h : Nat) (b : Buf) (o : Nat) (h0 : b[o]? = some 42) (h1 : b[o + 1]? = some 44) :
    (parseNameAddrPVal h b o {}).2.1 = .badChar :=
  parseNameAddr_star_comma h b o h0 h1

/-- a span inside the buffer dereferences to its bytes (Go: `f.Get(buf)` does not panic and returns `buf[i:j]`) -/
theorem field_text (b : Buf) (i j : Nat) (hij : i ≤ j) (hj : j ≤ b.size) (hfit : b.size ≤ 65535) :
    PField.get? b ⟨i, j - i⟩ = some (b.extract i j) := by
  rw [field_get? b i (j - i) (by omega) hfit]
  congr 2; omega

/-! ### comma-separated lists: Contact and P-Asserted-Identity -/

theorem contact_values (b : Buf) (hfit : b.size ≤ 65535) (o o' : Nat) (rs : List PFromBody)
    (H : ValList HdrContact b o rs o') (c : PContacts) (hc : CtClean c) (hcur : c.cur = {}) :
    parseAllContactValues b o c = (o', .ok, c.acceptAll rs) :=
  parseAllContactValues_list b hfit H c hc hcur

theorem new_contacts_ok (k : Nat) :
    CtClean ({ vals := Array.replicate k {} } : PContacts) ∧ ({ vals := Array.replicate k {} } : PContacts).cur = {} :=
  ct_new_ok k

theorem contact_count (c : PContacts) (rs : List PFromBody) : (c.acceptAll rs).n = c.n + rs.length :=
  ctAcceptAll_n c rs

theorem contact_stored (c : PContacts) (rs : List PFromBody) (k : Nat) (hk : k < rs.length)
    (hin : c.n + k < c.vals.size) : (c.acceptAll rs).vals[c.n + k]! = rs[k] :=
  ctAcceptAll_stored c rs k hk hin

theorem contact_max_expires (c : PContacts) (rs : List PFromBody) :
    (c.acceptAll rs).maxExpires = rs.foldl (fun m r => max m r.expires) c.maxExpires :=
  ctAcceptAll_maxE c rs

theorem contact_min_expires (c : PContacts) (rs : List PFromBody) (hne : rs ≠ []) :
    (c.acceptAll rs).minExpires =
      rs.foldl (fun m r => min m r.expires) (if c.n == 0 then 4294967295 else c.minExpires) :=
  ctAcceptAll_minE c rs hne

theorem pai_values (b : Buf) (hfit : b.size ≤ 65535) (o o' : Nat) (rs : List PFromBody)
    (H : ValList HdrPAI b o rs o') (c : PPAIs) (hc : PaClean c) (hcur : c.cur = {}) :
    parseAllPAIValues b o c = (o', .ok, c.acceptAll rs) :=
  parseAllPAIValues_list b hfit H c hc hcur

theorem new_pais_ok : PaClean ({} : PPAIs) ∧ ({} : PPAIs).cur = {} := pa_new_ok

theorem pai_count (c : PPAIs) (rs : List PFromBody) : (c.acceptAll rs).n = c.n + rs.length :=
  paAcceptAll_n c rs

/-! ### non-vacuity and tests -/

/-- the hypotheses of `bracket_form_params` are satisfiable: `"A" <s:b>;tag=x;lr CR LF X` as a From value
    (quoted display name, white space before `<`, a valued and a value-less parameter) -/
example : parseNameAddrPVal HdrFrom "\"A\" <s:b>;tag=x;lr\r\nX".toUTF8.data 0 {} =
    (20, .ok, naResult HdrFrom ⟨0, 4⟩ ⟨5, 3⟩ ⟨10, 8⟩ ⟨0, 18⟩
      (accAll "\"A\" <s:b>;tag=x;lr\r\nX".toUTF8.data [⟨10, 13, 14, 15⟩, ⟨16, 18, 0, 0⟩] {})) := by
  have hq : NaQBody "\"A\" <s:b>;tag=x;lr\r\nX".toUTF8.data 1 2 := .ch 1 2 65 (by decide) (by decide) (.nil 2 (by decide))
  have ht : NameTail "\"A\" <s:b>;tag=x;lr\r\nX".toUTF8.data 3 4 :=
    .lws 3 4 4 60 (.ws 3 4 32 (by decide) (by decide) (.nil 4)) (by decide) (by decide) (by decide) (.done 4 (by decide))
  have hL : PList "\"A\" <s:b>;tag=x;lr\r\nX".toUTF8.data (9 + 1) [⟨10, 13, 14, 15⟩, ⟨16, 18, 0, 0⟩] 18 :=
    .cons 10 15 15 18 _ _
      (.val 10 13 13 14 15 (.nil 10) (run_of_check (by decide)) (by decide) (.nil 13) (by decide) (.nil 14)
        (Or.inl ⟨120, by decide, by decide, .nil 15⟩))
      (.nil 15) (by decide)
      (.last 16 18 _ (.flag 16 18 (.nil 16) (run_of_check (by decide)) (by decide)))
  exact bracket_form_params HdrFrom _ 0 4 8 9 18 20 .ok ⟨0, 4⟩ _ (by decide)
    (.quoted 2 4 (by decide) hq ht) (run_of_check (by decide)) (by decide) (by decide) (.nil 9) (by decide) hL
    (.eol 18 20 88 (.nil 18) (.crlf 18 (by decide) (by decide)) (by decide) (by decide))

/-- … and what `accAll` is on that instance (test by evaluation) -/
example : accAll "\"A\" <s:b>;tag=x;lr\r\nX".toUTF8.data [⟨10, 13, 14, 15⟩, ⟨16, 18, 0, 0⟩] {} =
    { tag := ⟨14, 1⟩, lr := true } := by decide +kernel

/-- the hypotheses of `contact_values` are satisfiable: `a:b,<c> CR LF X` — a bare URI ended by a comma and a
    bracketed URI ended by the line end — parsed into an array of capacity 1: two values counted, OK, offset 9 -/
example : (parseAllContactValues "a:b,<c>\r\nX".toUTF8.data 0 { vals := Array.replicate 1 {} }).1 = 9 ∧
    (parseAllContactValues "a:b,<c>\r\nX".toUTF8.data 0 { vals := Array.replicate 1 {} }).2.1 = .ok ∧
    (parseAllContactValues "a:b,<c>\r\nX".toUTF8.data 0 { vals := Array.replicate 1 {} }).2.2.n = 2 := by
  have v1 : NAValue HdrContact "a:b,<c>\r\nX".toUTF8.data 0 4 .moreValues
      (naResult HdrContact {} ⟨0, 3 - 0⟩ {} ⟨0, 3 - 0⟩ {}) :=
    Or.inr (Or.inr (Or.inl ⟨0, 3, 97, .nil 0, by decide, by decide, run_of_check (by decide), by decide,
      .comma 3 (.nil 3) (by decide) (by decide), rfl⟩))
  have v2 : NAValue HdrContact "a:b,<c>\r\nX".toUTF8.data 4 9 .ok
      (naResult HdrContact {} ⟨4 + 1, 6 - (4 + 1)⟩ {} ⟨4, 6 + 1 - 4⟩ {}) :=
    Or.inl ⟨4, 4, 6, {}, .nil 4, .none (by decide), run_of_check (by decide), by decide, by decide,
      .eol 7 9 88 (.nil 7) (.crlf 7 (by decide) (by decide)) (by decide) (by decide), rfl⟩
  have hlist := ValList.cons 0 4 9 _ _ v1 (.last 4 9 _ v2)
  have hnew := new_contacts_ok 1
  rw [contact_values _ (by decide) 0 9 _ hlist _ hnew.1 hnew.2]
  exact ⟨rfl, rfl, by rw [contact_count]; rfl⟩

/-- tests (evaluation of the model on concrete inputs, not proofs of the property): display name, commas and `;`
    inside the brackets, white space around `;` and `=`, upper-case `Q`, saturating expires, comma after the value -/
example : (parseNameAddrPVal HdrContact "Bob <sip:b@h;x=1,y> ; Q = 0.5 ;expires=4294967299, <z>\r\nX".toUTF8.data 0 {}) =
    (50, .moreValues, { name := ⟨0, 4⟩, uri := ⟨5, 13⟩, params := ⟨22, 27⟩, v := ⟨0, 49⟩, q := 500, hasExpires := true, expires := 4294967295, type := HdrContact, state := .fin }) := by
  decide +kernel

/-- test: bare URI, quoted tag value containing `;`, a fold before the line end -/
example : (parseNameAddrPVal HdrTo "sip:b@h;tag=\"a;b\"\r\n \r\nX".toUTF8.data 0 {}) =
    (22, .ok, { uri := ⟨0, 7⟩, params := ⟨8, 9⟩, tag := ⟨12, 5⟩, v := ⟨0, 17⟩, type := HdrTo, state := .fin }) := by
  decide +kernel

example : (parseNameAddrPVal HdrContact "*\r\nX".toUTF8.data 0 {}).2.2.star = true := by decide +kernel

end Sipsp.C09
