/-
  Property C16 — header-name and method classification is total and exactly the table.

  `Spec.hdrTable` / `Spec.mthTable` are the tables written in the property; `Gen.hdrName2Type` /
  `Gen.method2Name` are REGENERATED from the Go source on every run, so `gen_hdr_table_is_spec` /
  `gen_mth_table_is_spec` (and with them every theorem below) are re-checked against what the code says now.
  All theorems hold for names of ANY length (no bound), the empty name included.
-/
import Sipsp.Proofs.Lookup
import Sipsp.Spec.Tables
import Sipsp.Model.Msg

namespace Sipsp.C16
open Sipsp

/-! ### facts about the regenerated tables (finite: `decide`) -/

/-- the regenerated header table is the property's table (as a set) -/
theorem gen_hdr_table_is_spec :
    (Gen.hdrName2Type.all fun e => Spec.hdrTable.contains e) = true ∧
    (Spec.hdrTable.all fun e => Gen.hdrName2Type.contains e) = true := by decide

theorem gen_hdr_lower : (Gen.hdrName2Type.all fun e => lowerL e.1 == e.1 && e.1 != []) = true := by decide

/-- a name determines its type (no name listed with two types) -/
theorem spec_hdr_functional :
    (Spec.hdrTable.all fun e => Spec.hdrTable.all fun e' => e.1 != e'.1 || e.2 == e'.2) = true := by decide

theorem spec_hdr_known : (Spec.hdrTable.all fun e => decide (1 ≤ e.2 ∧ e.2 ≤ 13)) = true := by decide

/-- the method names registered by `init()` are exactly the property's method table -/
theorem gen_mth_table_is_spec :
    (mthEntries.all fun e => Spec.mthTable.contains e) = true ∧
    (Spec.mthTable.all fun e => mthEntries.contains e) = true := by decide

theorem spec_mth_functional :
    (Spec.mthTable.all fun e => Spec.mthTable.all fun e' => e.1 != e'.1 || e.2 == e'.2) = true := by decide

theorem spec_mth_nonempty : (Spec.mthTable.all fun e => e.1 != []) = true := by decide

private theorem mem_gen_iff (e : List UInt8 × Nat) : e ∈ Gen.hdrName2Type ↔ e ∈ Spec.hdrTable := by
  have h := gen_hdr_table_is_spec
  simp only [List.all_eq_true, List.contains_iff_mem] at h
  exact ⟨h.1 e, h.2 e⟩

private theorem mem_mth_iff (e : List UInt8 × Nat) : e ∈ mthEntries ↔ e ∈ Spec.mthTable := by
  have h := gen_mth_table_is_spec
  simp only [List.all_eq_true, List.contains_iff_mem] at h
  exact ⟨h.1 e, h.2 e⟩

private theorem gen_lower {e : List UInt8 × Nat} (he : e ∈ Gen.hdrName2Type) : lowerL e.1 = e.1 ∧ e.1 ≠ [] := by
  have h := gen_hdr_lower
  simp only [List.all_eq_true, Bool.and_eq_true, beq_iff_eq, bne_iff_ne] at h
  exact h e he

/-- the bucket lookup of `GetHdrType` equals a lookup in the whole table -/
private theorem bucket_eq (name : Buf) (c : UInt8) (h0 : name[0]? = some c) :
    lookupCI name (hdrBucket (hashName Gen.C.hnBitsLen Gen.C.hnBitsFChar c name.size)) =
    lookupCI name Gen.hdrName2Type := by
  unfold hdrBucket
  apply lookupCI_filter
  intro e _ hc
  have hl := (cmpEqL_iff name e.1).1 hc
  obtain ⟨rest, hrest⟩ : ∃ rest, name.toList = c :: rest := by
    cases hn : name.toList with
    | nil =>
      have : name.size = 0 := by simpa using congrArg List.length hn
      have : name[0]? = none := by simp [this]
      rw [this] at h0; cases h0
    | cons x xs =>
      have hx : name[0]? = some x := by
        have := congrArg (fun l => l[0]?) hn
        simpa using this
      rw [hx] at h0; cases h0; exact ⟨xs, rfl⟩
  rw [hrest] at hl
  have hs : name.size = rest.length + 1 := by
    have := congrArg List.length hrest; simpa using this
  rw [hs, hashNameL_of_lower hl]
  simp

/-- **C16 (header names), known names**: a name that equals a listed name ignoring letter case gets that
    name's type. -/
theorem hdr_known (name : Buf) (e : List UInt8 × Nat) (he : e ∈ Spec.hdrTable)
    (hm : lowerL name.toList = e.1) : getHdrType name = e.2 := by
  have heg := (mem_gen_iff e).2 he
  obtain ⟨hlow, hne⟩ := gen_lower heg
  unfold getHdrType
  cases h0 : name[0]? with
  | none =>
    exfalso
    have : name.size = 0 := by
      rcases Nat.eq_zero_or_pos name.size with h | h
      · exact h
      · have : name[0]? ≠ none := by simp [h]
        exact absurd h0 this
    have : name.toList = [] := by simpa using this
    rw [this] at hm; exact hne (by simpa [lowerL] using hm.symm)
  | some c =>
    simp only
    rw [bucket_eq name c h0]
    have hmatch : cmpEqL name e.1 = true := (cmpEqL_iff name e.1).2 (by rw [hm, hlow])
    cases hl : lookupCI name Gen.hdrName2Type with
    | none => have := lookupCI_none hl e heg; rw [hmatch] at this; cases this
    | some t =>
      simp only
      obtain ⟨e', he', hc', ht'⟩ := lookupCI_some hl
      have hl' := (cmpEqL_iff name e'.1).1 hc'
      rw [(gen_lower he').1, hm] at hl'
      have hf := spec_hdr_functional
      simp only [List.all_eq_true, Bool.or_eq_true, bne_iff_ne, beq_iff_eq] at hf
      rcases hf e he e' ((mem_gen_iff e').1 he') with h | h
      · exact absurd hl' h
      · rw [← ht', h]

/-- **C16 (header names), all other names**: a name that equals no listed name (ignoring case) is `other`.
    Holds for the empty name too (no panic: the model returns a value for every input). -/
theorem hdr_other (name : Buf) (hno : ∀ e ∈ Spec.hdrTable, lowerL name.toList ≠ e.1) :
    getHdrType name = HdrOther := by
  unfold getHdrType
  cases h0 : name[0]? with
  | none => rfl
  | some c =>
    simp only
    rw [bucket_eq name c h0]
    cases hl : lookupCI name Gen.hdrName2Type with
    | none => rfl
    | some t =>
      exfalso
      obtain ⟨e', he', hc', _⟩ := lookupCI_some hl
      have hl' := (cmpEqL_iff name e'.1).1 hc'
      rw [(gen_lower he').1] at hl'
      exact hno e' ((mem_gen_iff e').1 he') hl'

/-- **C16 (header names), "if and only if"**: the result is a known type exactly for the listed names. -/
theorem hdr_iff (name : Buf) (t : Nat) (ht : t ≠ HdrOther) :
    getHdrType name = t ↔ ∃ e ∈ Spec.hdrTable, lowerL name.toList = e.1 ∧ e.2 = t := by
  constructor
  · intro h
    by_cases hex : ∃ e ∈ Spec.hdrTable, lowerL name.toList = e.1
    · obtain ⟨e, he, hm⟩ := hex
      exact ⟨e, he, hm, by rw [← hdr_known name e he hm, h]⟩
    · exfalso
      have := hdr_other name (fun e he hm => hex ⟨e, he, hm⟩)
      exact ht (by rw [← h, this])
  · rintro ⟨e, he, hm, rfl⟩
    exact hdr_known name e he hm

/-! ### methods -/

private theorem mth_bucket_eq (name : Buf) (c : UInt8) (h0 : name[0]? = some c) :
    lookupExact name (mthBucket (hashName Gen.C.mthBitsLen Gen.C.mthBitsFChar c name.size)) =
    lookupExact name mthEntries := by
  unfold mthBucket
  apply lookupExact_filter
  intro e _ hc
  have hn : name.toList = c :: name.toList.tail := by
    cases hl : name.toList with
    | nil =>
      have : name.size = 0 := by simpa using congrArg List.length hl
      have : name[0]? = none := by simp [this]
      rw [this] at h0; cases h0
    | cons x xs =>
      have hx : name[0]? = some x := by
        have := congrArg (fun l => l[0]?) hl
        simpa using this
      rw [hx] at h0; cases h0; rfl
  have hs : name.size = name.toList.tail.length + 1 := by
    have := congrArg List.length hn; simpa using this
  rw [← hc, hn]
  simp only [hashNameL, List.length_cons, beq_iff_eq]
  rw [hs]

/-- **C16 (methods), known**: exactly the upper-case listed name gives that method. -/
theorem mth_known (name : Buf) (e : List UInt8 × Nat) (he : e ∈ Spec.mthTable) (hm : name.toList = e.1) :
    getMethodNo name = e.2 := by
  have heg := (mem_mth_iff e).2 he
  have hne : e.1 ≠ [] := by
    have h := spec_mth_nonempty
    simp only [List.all_eq_true, bne_iff_ne] at h
    exact h e he
  unfold getMethodNo
  cases h0 : name[0]? with
  | none =>
    exfalso
    have : name.size = 0 := by
      rcases Nat.eq_zero_or_pos name.size with h | h
      · exact h
      · have : name[0]? ≠ none := by simp [h]
        exact absurd h0 this
    have : name.toList = [] := by simpa using this
    rw [this] at hm; exact hne hm.symm
  | some c =>
    simp only
    rw [mth_bucket_eq name c h0]
    cases hl : lookupExact name mthEntries with
    | none => exact absurd hm (lookupExact_none hl e heg)
    | some t =>
      simp only
      obtain ⟨e', he', hc', ht'⟩ := lookupExact_some hl
      have hf := spec_mth_functional
      simp only [List.all_eq_true, Bool.or_eq_true, bne_iff_ne, beq_iff_eq] at hf
      rcases hf e he e' ((mem_mth_iff e').1 he') with h | h
      · exact absurd (hm.symm.trans hc') h
      · rw [← ht', h]

/-- **C16 (methods), other**: every other byte string (other letter case included) is `other`. -/
theorem mth_other (name : Buf) (hno : ∀ e ∈ Spec.mthTable, name.toList ≠ e.1) : getMethodNo name = MOther := by
  unfold getMethodNo
  cases h0 : name[0]? with
  | none => rfl
  | some c =>
    simp only
    rw [mth_bucket_eq name c h0]
    cases hl : lookupExact name mthEntries with
    | none => rfl
    | some t =>
      exfalso
      obtain ⟨e', he', hc', _⟩ := lookupExact_some hl
      exact hno e' ((mem_mth_iff e').1 he') hc'

/-- **C16 (round trip)**: mapping a known method (1..14) to its name and back is the identity. -/
theorem mth_roundtrip :
    ((List.range 15).all fun m => m == 0 || getMethodNo (methodName m).toArray == m) = true := by
  decide +kernel

/-- `SIPMethod.Name()` of a known method is the listed name -/
theorem mth_name : (Spec.mthTable.all fun e => methodName e.2 == e.1) = true := by decide

/-- the header-specific value parsers never change the type stored in the header -/
theorem parseBody_type (b : Buf) (o : Nat) (h : Hdr) (hb : Option PHdrVals) :
    (parseBody b o h hb).2.2.1.type = h.type := by
  unfold parseBody
  cases hb with
  | none => rfl
  | some hv =>
    simp only [apply_ite (fun r : Nat × Err × Hdr × Option PHdrVals => r.2.2.1.type), ite_self]

/-- the type of the header carried by a step result of the header-line machine -/
def stepHdrType : Step HLσ → Nat
  | .cont _ st => st.1.type
  | .done _ _ st => st.1.type

/-- **C16 (the header parser assigns exactly this classification)**: when `ParseHdrLine` reaches the
    colon it stores `getHdrType` of the name field (`h.Type = GetHdrType(h.Name.Get(buf))`), and nothing
    after that changes it: whatever the step results in, the header carries that type. -/
theorem hdrline_assigns (b : Buf) (i : Nat) (h : Hdr) (hb : Option PHdrVals) (nm : Buf)
    (hn : h.name.get? b = some nm) : stepHdrType (hlAfterColon b i h hb) = getHdrType nm := by
  unfold hlAfterColon
  rw [hn]
  simp only
  have ht := parseBody_type b i { h with type := getHdrType nm } hb
  generalize parseBody b i { h with type := getHdrType nm } hb = r at ht
  obtain ⟨n, e, h2, hb2⟩ := r
  simp only at ht ⊢
  by_cases hs : (h2.state != HState.bodyStart) = true
  · rw [if_pos hs]
    by_cases he : (e == Err.ok) = true
    · simp only [stepHdrType, if_pos he, ht]
    · simp only [stepHdrType, if_neg he, ht]
  · rw [if_neg hs]
    simp only [stepHdrType, ht]

/-! ### non-vacuity: the hypotheses are satisfiable by concrete non-trivial names -/

example : getHdrType #[67, 97, 76, 108, 45, 105, 68] = 3 :=   -- "CaLl-iD"
  hdr_known _ ([99, 97, 108, 108, 45, 105, 100], 3) (by decide) (by decide)
example : getHdrType #[84, 105, 109, 101, 115, 116, 97, 109, 112] = HdrOther :=   -- "Timestamp"
  hdr_other _ (by decide)
example : getMethodNo #[105, 110, 118, 105, 116, 101] = MOther := mth_other _ (by decide)   -- "invite"

end Sipsp.C16
