module verif/harness

go 1.21

require github.com/intuitivelabs/sipsp v0.0.0

require (
	github.com/intuitivelabs/bytescase v1.0.2 // indirect
	github.com/intuitivelabs/slog v0.0.2 // indirect
)

replace github.com/intuitivelabs/sipsp => ../.build/sipsp
