//go:build verif

// This file is NOT part of intuitivelabs/sipsp. The /verif check copies the
// current non-test sources of /repo into a scratch package directory, adds
// this file and builds the harness against the copy with -tags verif. It
// interprets the session line protocol (see /verif/harness/PROTOCOL.md) on
// the real implementation and prints observations in exactly the format of
// the Lean driver (lean/Sipsp/Driver/{Obs,Exec}.lean).
package sipsp

import (
	"encoding/hex"
	"fmt"
	"strconv"
	"strings"

	"github.com/intuitivelabs/bytescase"
)

func vByteToLower(c byte) byte { return bytescase.ByteToLower(c) }
func vCmpEq(a, b []byte) bool  { return bytescase.CmpEq(a, b) }

func vb01(b bool) string {
	if b {
		return "1"
	}
	return "0"
}
func vpf(f PField) string { return fmt.Sprintf("%d:%d", f.Offs, f.Len) }

func vErrName(e ErrorHdr) string {
	names := [...]string{"ErrHdrOk", "ErrHdrEOH", "ErrHdrEmpty", "ErrHdrMoreBytes", "ErrHdrMoreValues",
		"ErrHdrNoCR", "ErrHdrBadChar", "ErrHdrParams", "ErrHdrBad", "ErrHdrValNotNumber", "ErrHdrValTooLong",
		"ErrHdrValBad", "ErrHdrNumTooBig", "ErrHdrTrunc", "ErrHdrNoCLen", "ErrHdrBug", "ErrConvBug",
		"ErrHdrTooManyVals"}
	if int(e) < len(names) {
		return names[e]
	}
	return fmt.Sprintf("Err%d", uint32(e))
}

func vURIErrName(e ErrorURI) string {
	names := [...]string{"NoURIErr", "ErrURIBadChar", "ErrURIScheme", "ErrURIHost", "ErrURIPort",
		"ErrURIHeaders", "ErrURITooShort", "ErrURIBad", "ErrURIBug"}
	if int(e) < len(names) {
		return names[e]
	}
	return fmt.Sprintf("UErr%d", uint32(e))
}

func vFline(l *PFLine) string {
	return fmt.Sprintf("st=%d mn=%d m=%s u=%s v=%s sc=%s r=%s rq=%s pa=%s pn=%s em=%s",
		l.Status, l.MethodNo, vpf(l.Method), vpf(l.URI), vpf(l.Version), vpf(l.StatusCode), vpf(l.Reason),
		vb01(l.Request()), vb01(l.Parsed()), vb01(l.Pending()), vb01(l.Empty()))
}

func vFrom(f *PFromBody) string {
	return fmt.Sprintf("n=%s u=%s t=%s star=%s lr=%s he=%s ty=%d q=%d ex=%d p=%s v=%s pe=%s eo=%d pa=%s pn=%s em=%s",
		vpf(f.Name), vpf(f.URI), vpf(f.Tag), vb01(f.Star), vb01(f.LR), vb01(f.HasExpires), f.Type, f.Q,
		f.Expires, vpf(f.Params), vpf(f.V), vErrName(f.ParamErr), f.ErrOffs, vb01(f.Parsed()),
		vb01(f.Pending()), vb01(f.Empty()))
}

func vCSeq(c *PCSeqBody) string {
	return fmt.Sprintf("no=%d mn=%d cs=%s m=%s v=%s pa=%s em=%s", c.CSeqNo, c.MethodNo, vpf(c.CSeq),
		vpf(c.Method), vpf(c.V), vb01(c.Parsed()), vb01(c.Empty()))
}
func vCallID(c *PCallIDBody) string {
	return fmt.Sprintf("id=%s pa=%s em=%s", vpf(c.CallID), vb01(c.Parsed()), vb01(c.Empty()))
}
func vUInt(c *PUIntBody) string {
	return fmt.Sprintf("ui=%d sv=%s pa=%s em=%s", c.UIVal, vpf(c.SVal), vb01(c.Parsed()), vb01(c.Empty()))
}
func vTokParam(p *PTokParam) string {
	return fmt.Sprintf("all=%s name=%s val=%s em=%s", vpf(p.All), vpf(p.Name), vpf(p.Val), vb01(p.Empty()))
}
func vOptFrom(f *PFromBody) string {
	if f == nil {
		return "nil"
	}
	return "{" + vFrom(f) + "}"
}
func vContacts(c *PContacts) string {
	var vals []string
	for k := 0; k < c.VNo(); k++ {
		vals = append(vals, vOptFrom(c.GetContact(k)))
	}
	last := "nil"
	if c.N > 0 {
		last = vOptFrom(c.GetContact(c.N - 1))
	}
	return fmt.Sprintf("N=%d HNo=%d max=%d min=%d lh=%s vno=%d more=%s em=%s pa=%s vals=[%s] first=%s last=%s",
		c.N, c.HNo, c.MaxExpires, c.MinExpires, vpf(c.LastHVal), c.VNo(), vb01(c.More()), vb01(c.Empty()),
		vb01(c.Parsed()), strings.Join(vals, " "), vOptFrom(c.GetContact(0)), last)
}
func vPAIs(c *PPAIs) string {
	var vals []string
	for k := 0; k < c.VNo(); k++ {
		vals = append(vals, vOptFrom(c.GetPAI(k)))
	}
	return fmt.Sprintf("N=%d HNo=%d lh=%s vno=%d more=%s em=%s pa=%s vals=[%s]",
		c.N, c.HNo, vpf(c.LastHVal), c.VNo(), vb01(c.More()), vb01(c.Empty()), vb01(c.Parsed()),
		strings.Join(vals, " "))
}
func vHdr(h *Hdr) string {
	return fmt.Sprintf("ty=%d n=%s v=%s", h.Type, vpf(h.Name), vpf(h.Val))
}
func vOptHdr(h *Hdr) string {
	if h == nil {
		return "nil"
	}
	return "{" + vHdr(h) + "}"
}
func vHdrLst(hl *HdrLst) string {
	var stored []string
	n := hl.N
	if n > len(hl.Hdrs) {
		n = len(hl.Hdrs)
	}
	for k := 0; k < n; k++ {
		stored = append(stored, vOptHdr(&hl.Hdrs[k]))
	}
	var firsts []string
	for t := 1; t <= 13; t++ {
		firsts = append(firsts, vOptHdr(hl.GetHdr(HdrT(t))))
	}
	tf := make([]byte, 15)
	for t := 0; t < 15; t++ {
		tf[t] = '0'
		if hl.PFlags.Test(HdrT(t)) {
			tf[t] = '1'
		}
	}
	return fmt.Sprintf("pf=%d tf=%s any=%s all=%s N=%d cap=%d hdrs=[%s] first=[%s]", hl.PFlags, tf,
		vb01(hl.PFlags.Any(HdrFrom, HdrTo)), vb01(hl.PFlags.AllSet(HdrFrom, HdrTo, HdrCallID, HdrCSeq)), hl.N, len(hl.Hdrs),
		strings.Join(stored, " "), strings.Join(firsts, " "))
}
func vHdrVals(hv *PHdrVals) string {
	me, ok := hv.MaxExpires()
	return "from={" + vFrom(&hv.From) + "} to={" + vFrom(&hv.To) + "} callid={" + vCallID(&hv.Callid) +
		"} cseq={" + vCSeq(&hv.CSeq) + "} clen={" + vUInt(&hv.CLen) + "} contacts={" + vContacts(&hv.Contacts) +
		"} pais={" + vPAIs(&hv.PAIs) + "} expires={" + vUInt(&hv.Expires) + "} maxexp=" +
		fmt.Sprintf("%d,%s", me, vb01(ok))
}
func vMsg(m *PSIPMsg, full []byte) string {
	rawOffs := 0
	if m.RawMsg != nil {
		rawOffs = cap(full) - cap(m.RawMsg)
	}
	return "fl={" + vFline(&m.FL) + "} pv={" + vHdrVals(&m.PV) + "} hl={" + vHdrLst(&m.HL) + "} " +
		fmt.Sprintf("body=%s buf=%d raw=%d:%d pa=%s er=%s rq=%s mth=%d", vpf(m.Body), len(m.Buf), rawOffs,
			len(m.RawMsg), vb01(m.Parsed()), vb01(m.Err()), vb01(m.Request()), m.Method())
}
func vURIParams(l *URIParamsLst) string {
	var stored []string
	for k := 0; k < l.PNo(); k++ {
		stored = append(stored, "{"+vTokParam(&l.Params[k].Param)+fmt.Sprintf(" t=%d", l.Params[k].T)+"}")
	}
	return fmt.Sprintf("N=%d types=%d pno=%d more=%s em=%s params=[%s]", l.N, l.Types, l.PNo(),
		vb01(l.More()), vb01(l.Empty()), strings.Join(stored, " "))
}
func vURIHdrs(l *URIHdrsLst) string {
	var stored []string
	for k := 0; k < l.HNo(); k++ {
		stored = append(stored, "{"+vTokParam((*PTokParam)(&l.Hdrs[k]))+"}")
	}
	return fmt.Sprintf("N=%d hno=%d more=%s em=%s hdrs=[%s]", l.N, l.HNo(), vb01(l.More()), vb01(l.Empty()),
		strings.Join(stored, " "))
}
func vURI(u *PsipURI) string {
	return fmt.Sprintf("ty=%d sch=%s user=%s pass=%s host=%s port=%s params=%s hdrs=%s pno=%d", u.URIType,
		vpf(u.Scheme), vpf(u.User), vpf(u.Pass), vpf(u.Host), vpf(u.Port), vpf(u.Params), vpf(u.Headers),
		u.PortNo)
}
func vNatList(l []int) string {
	var s []string
	for _, x := range l {
		s = append(s, strconv.Itoa(x))
	}
	return "[" + strings.Join(s, ", ") + "]"
}
func vMsgSig(s *MsgSig) string {
	var hs []int
	for i := 0; i < s.HdrSigLen && i < len(s.HdrSig); i++ {
		hs = append(hs, int(s.HdrSig[i]))
	}
	return fmt.Sprintf("m=%d cl=%d cs=%d fs=%d vs=%d hs=%s str=%s", s.Method, s.CidSLen, s.CidSig, s.FromSig,
		s.ViaBSig, vNatList(hs), s.String())
}

// the verdict of a parse output "offs,[n,]verdict": an error = an ErrHdr… name other than the five "going on" ones
func vIsErrOut(out string) bool {
	v := out[strings.LastIndex(out, ",")+1:]
	if !strings.HasPrefix(v, "ErrHdr") {
		return false
	}
	switch v {
	case "ErrHdrOk", "ErrHdrMoreBytes", "ErrHdrMoreValues", "ErrHdrEOH", "ErrHdrEmpty":
		return false
	}
	return true
}

func vUnhex(s string) []byte {
	if s == "-" {
		return []byte{}
	}
	b, _ := hex.DecodeString(s)
	return b
}
func vNat(s string) int {
	n, _ := strconv.Atoi(s)
	return n
}

// vClip returns b[:n] clamped to the length of b.
func vClip(b []byte, n int) []byte {
	if n > len(b) {
		n = len(b)
	}
	return b[:n]
}

type vSess struct {
	kind     string
	msg      *PSIPMsg
	hcapNil  bool
	ccapNil  bool
	hdrs     []Hdr
	cvals    []PFromBody
	fl       PFLine
	hdr      Hdr
	hl       HdrLst
	hv       *PHdrVals
	na       PFromBody
	naT      HdrT
	contacts PContacts
	pais     PPAIs
	cseq     PCSeqBody
	callid   PCallIDBody
	ui       PUIntBody
	tp       PTokParam
	upl      URIParamsLst
	uhl      URIHdrsLst
	uri      PsipURI
	buf      []byte
	last     int
	stop     bool // the last parse call returned an error verdict
	out      []string
}

func (s *vSess) hb() PHBodies {
	if s.hv == nil {
		return nil
	}
	return s.hv
}

func vNewSess(t []string) *vSess {
	s := &vSess{kind: t[0]}
	switch t[0] {
	case "msg":
		s.msg = &PSIPMsg{}
		if t[1] == "-" {
			s.hcapNil = true
		} else {
			s.hdrs = make([]Hdr, vNat(t[1]))
		}
		if t[2] == "-" {
			s.ccapNil = true
		} else {
			s.cvals = make([]PFromBody, vNat(t[2]))
		}
		s.msg.Init(nil, s.hdrs, s.cvals)
		if !s.hcapNil && s.hdrs == nil {
			s.hdrs = []Hdr{}
		}
	case "msgz":
		s.kind = "msg"
		s.msg = &PSIPMsg{}
	case "hdrline":
		if t[1] == "1" {
			s.hv = &PHdrVals{}
			s.hv.Contacts.Init(make([]PFromBody, vNat(t[2])))
		}
	case "headers":
		s.hl.Hdrs = make([]Hdr, vNat(t[1]))
		if t[2] == "1" {
			s.hv = &PHdrVals{}
			s.hv.Contacts.Init(make([]PFromBody, vNat(t[3])))
		}
	case "nameaddr":
		s.naT = HdrT(vNat(t[1]))
	case "contacts":
		s.contacts.Init(make([]PFromBody, vNat(t[1])))
	case "uriparams":
		s.upl.Init(make([]URIParam, vNat(t[1])))
	case "urihdrs":
		s.uhl.Init(make([]URIHdr, vNat(t[1])))
	}
	return s
}

func (s *vSess) parse(b []byte, offs int, flags int) string {
	res := func(o int, e ErrorHdr) string {
		s.last = o
		return fmt.Sprintf("%d,%s", o, vErrName(e))
	}
	switch s.kind {
	case "msg":
		o, e := ParseSIPMsg(b, offs, s.msg, uint8(flags))
		return res(o, e)
	case "fline":
		o, e := ParseFLine(b, offs, &s.fl)
		return res(o, e)
	case "hdrline":
		o, e := ParseHdrLine(b, offs, &s.hdr, s.hb())
		return res(o, e)
	case "headers":
		o, e := ParseHeaders(b, offs, &s.hl, s.hb())
		return res(o, e)
	case "nameaddr":
		o, e := ParseNameAddrPVal(s.naT, b, offs, &s.na)
		return res(o, e)
	case "pai1":
		o, e := ParseOnePAI(b, offs, &s.na)
		return res(o, e)
	case "contacts":
		o, e := ParseAllContactValues(b, offs, &s.contacts)
		return res(o, e)
	case "pais":
		o, e := ParseAllPAIValues(b, offs, &s.pais)
		return res(o, e)
	case "cseq":
		o, e := ParseCSeqVal(b, offs, &s.cseq)
		return res(o, e)
	case "callid":
		o, e := ParseCallIDVal(b, offs, &s.callid)
		return res(o, e)
	case "uint":
		o, e := ParseUIntVal(b, offs, &s.ui)
		return res(o, e)
	case "clen":
		o, e := ParseCLenVal(b, offs, &s.ui)
		return res(o, e)
	case "tokparam":
		o, e := ParseTokenParam(b, offs, &s.tp, POptFlags(flags))
		return res(o, e)
	case "uriparams":
		o, v, e := ParseAllURIParams(b, offs, &s.upl, POptFlags(flags))
		s.last = o
		return fmt.Sprintf("%d,%d,%s", o, v, vErrName(e))
	case "urihdrs":
		o, v, e := ParseAllURIHdrs(b, offs, &s.uhl, POptFlags(flags))
		s.last = o
		return fmt.Sprintf("%d,%d,%s", o, v, vErrName(e))
	case "skipq":
		o, e := SkipQuoted(b, offs)
		return res(o, e)
	case "uri":
		e, p := ParseURI(b, &s.uri)
		s.last = p
		return fmt.Sprintf("%s,%d", vURIErrName(e), p)
	}
	return "?"
}

func (s *vSess) reset() {
	switch s.kind {
	case "msg":
		s.msg.Reset()
	case "fline":
		s.fl.Reset()
	case "hdrline":
		s.hdr.Reset()
		if s.hv != nil {
			s.hv.Reset()
		}
	case "headers":
		s.hl.Reset()
		if s.hv != nil {
			s.hv.Reset()
		}
	case "nameaddr", "pai1":
		s.na.Reset()
	case "contacts":
		s.contacts.Reset()
	case "pais":
		s.pais.Reset()
	case "cseq":
		s.cseq.Reset()
	case "callid":
		s.callid.Reset()
	case "uint", "clen":
		s.ui.Reset()
	case "tokparam":
		s.tp.Reset()
	case "uriparams":
		s.upl.Reset()
	case "urihdrs":
		s.uhl.Reset()
	case "uri":
		s.uri.Reset()
	}
}

func (s *vSess) init() {
	switch s.kind {
	case "msg":
		var h []Hdr
		var c []PFromBody
		if !s.hcapNil {
			h = s.msg.HL.Hdrs
			if h == nil {
				h = []Hdr{}
			}
		}
		if !s.ccapNil {
			c = s.msg.PV.Contacts.Vals
			if c == nil {
				c = []PFromBody{}
			}
		}
		s.msg.Init(s.buf, h, c)
	case "hdrline", "headers":
		s.hdr.Reset()
		s.hl.Reset()
		if s.hv != nil {
			s.hv.Init(s.hv.Contacts.Vals)
		}
	default:
		s.reset()
	}
}

func (s *vSess) obs() string {
	switch s.kind {
	case "msg":
		return vMsg(s.msg, s.buf)
	case "fline":
		return vFline(&s.fl)
	case "hdrline":
		r := vHdr(&s.hdr)
		if s.hv != nil {
			r += " pv={" + vHdrVals(s.hv) + "}"
		}
		return r
	case "headers":
		r := vHdrLst(&s.hl)
		if s.hv != nil {
			r += " pv={" + vHdrVals(s.hv) + "}"
		}
		return r
	case "nameaddr", "pai1":
		return vFrom(&s.na)
	case "contacts":
		return vContacts(&s.contacts)
	case "pais":
		return vPAIs(&s.pais)
	case "cseq":
		return vCSeq(&s.cseq)
	case "callid":
		return vCallID(&s.callid)
	case "uint", "clen":
		return vUInt(&s.ui)
	case "tokparam":
		return vTokParam(&s.tp)
	case "uriparams":
		return vURIParams(&s.upl)
	case "urihdrs":
		return vURIHdrs(&s.uhl)
	case "uri":
		return vURI(&s.uri)
	case "skipq":
		return "-"
	}
	return "?"
}

// step executes one op; returns false when the session must stop (panic).
func (s *vSess) step(op []string) (cont bool) {
	defer func() {
		if r := recover(); r != nil {
			s.out = append(s.out, "PANIC")
			cont = false
		}
	}()
	switch op[0] {
	case "B":
		s.buf = vUnhex(op[1])
	case "P":
		n := vNat(op[1])
		if n > len(s.buf) {
			n = len(s.buf)
		}
		// continuing an object after an error verdict (without Reset / Init) is outside every property's domain
		if op[2] == "c" && s.stop {
			s.out = append(s.out, "skipped-after-error")
			break
		}
		b := s.buf[:n]
		offs := s.last
		if op[2] != "c" {
			offs = vNat(op[2])
		}
		res := s.parse(b, offs, vNat(op[3]))
		s.out = append(s.out, res)
		s.stop = vIsErrOut(res)
	case "R":
		s.reset()
		s.stop = false
	case "I":
		s.init()
		s.stop = false
	case "O":
		s.out = append(s.out, s.obs())
	case "G":
		// (the library now answers "empty" itself for a message whose parse has not completed)
		sig, e := GetMsgSig(s.msg)
		s.out = append(s.out, vMsgSig(&sig)+" err="+vErrName(e))
	case "A":
		ok := s.uri.AdjustOffs(PField{Offs: OffsT(vNat(op[1])), Len: OffsT(vNat(op[2]))})
		s.out = append(s.out, vb01(ok))
	case "T":
		s.uri.Truncate()
	case "V":
		sh := s.uri.Short()
		lg := s.uri.Long()
		fl := s.uri.Flat(s.buf)
		s.out = append(s.out, fmt.Sprintf("short=%s long=%s flat=%d", vpf(sh), vpf(lg), len(fl)))
	default:
		s.out = append(s.out, "?op")
	}
	return true
}

func vIPStr4(ip []byte) string {
	var s []string
	for _, x := range ip {
		s = append(s, strconv.Itoa(int(x)))
	}
	return strings.Join(s, ".")
}
func vIPStr6(ip []byte) string {
	var s []string
	for j := 0; j < 8; j++ {
		s = append(s, strconv.Itoa(int(ip[2*j])<<8|int(ip[2*j+1])))
	}
	return strings.Join(s, ".")
}

func vRunFunc(t []string) (out string, ok bool) {
	defer func() {
		if r := recover(); r != nil {
			out = "PANIC"
			ok = true
		}
	}()
	switch t[0] {
	case "skipquoted":
		b := vClip(vUnhex(t[1]), vNat(t[2]))
		o, e := SkipQuoted(b, vNat(t[3]))
		return fmt.Sprintf("%d,%s", o, vErrName(e)), true
	case "hdrtype":
		return strconv.Itoa(int(GetHdrType(vUnhex(t[1])))), true
	case "methodno":
		return strconv.Itoa(int(GetMethodNo(vUnhex(t[1])))), true
	case "methodname":
		return string(SIPMethod(vNat(t[1])).Name()), true
	case "uriparamresolve":
		return strconv.Itoa(int(URIParamResolve(vUnhex(t[1])))), true
	case "ip4prefix":
		dst := make([]byte, 4)
		k, n, e := IP4Prefix(vUnhex(t[1]), dst)
		r := fmt.Sprintf("%s,%d,%s", vb01(k), n, vErrName(e))
		if k {
			r += "," + vIPStr4(dst)
		}
		return r, true
	case "containsip4":
		dst := make([]byte, 4)
		k, o, l := ContainsIP4(vUnhex(t[1]), dst)
		if k {
			return fmt.Sprintf("1,%d,%d,%s", o, l, vIPStr4(dst)), true
		}
		return fmt.Sprintf("0,%d,%d", o, l), true
	case "ip4prefixd", "containsip4d", "ip6prefixd", "containsip6d":
		// the same functions with a caller-supplied result buffer of any length (a capacity like the others)
		dst := make([]byte, vNat(t[2]))
		var r string
		var k bool
		switch t[0] {
		case "ip4prefixd":
			var n int
			var e ErrorHdr
			k, n, e = IP4Prefix(vUnhex(t[1]), dst)
			r = fmt.Sprintf("%s,%d,%s", vb01(k), n, vErrName(e))
		case "containsip4d":
			var o, l int
			k, o, l = ContainsIP4(vUnhex(t[1]), dst)
			r = fmt.Sprintf("%s,%d,%d", vb01(k), o, l)
		case "ip6prefixd":
			var n int
			var e ErrorHdr
			k, n, e = IP6Prefix(vUnhex(t[1]), dst)
			r = fmt.Sprintf("%s,%d,%s", vb01(k), n, vErrName(e))
		default:
			var o, l int
			k, o, l = ContainsIP6(vUnhex(t[1]), dst)
			r = fmt.Sprintf("%s,%d,%d", vb01(k), o, l)
		}
		if k {
			r += ",dst=" + vIPStr4(dst)
		}
		return r, true
	case "ip6prefix":
		dst := make([]byte, 16)
		k, n, e := IP6Prefix(vUnhex(t[1]), dst)
		r := fmt.Sprintf("%s,%d,%s", vb01(k), n, vErrName(e))
		if k {
			r += "," + vIPStr6(dst)
		}
		return r, true
	case "containsip6":
		dst := make([]byte, 16)
		k, o, l := ContainsIP6(vUnhex(t[1]), dst)
		if k {
			return fmt.Sprintf("1,%d,%d,%s", o, l, vIPStr6(dst)), true
		}
		return fmt.Sprintf("0,%d,%d", o, l), true
	case "strsig":
		sg, sk := getStrCharsSig(vUnhex(t[1]), vNat(t[2]), vNat(t[3]))
		return fmt.Sprintf("%d,%d", sg, sk), true
	case "callidsig":
		sg, l := GetCallIDSig(vUnhex(t[1]))
		return fmt.Sprintf("%d,%d", sg, l), true
	case "viabrsig":
		sg, l := GetViaBrSig(vUnhex(t[1]))
		return fmt.Sprintf("%d,%d", sg, l), true
	case "hdrsigid":
		sg, e := GetHdrSigId(Hdr{Type: HdrT(vNat(t[1])), Name: PField{Len: OffsT(vNat(t[2]))}})
		return fmt.Sprintf("%d,%s", sg, vErrName(e)), true
	case "tokallowed":
		var sb strings.Builder
		for c := 0; c < 256; c++ {
			if tokAllowedChar(byte(c), POptFlags(vNat(t[1]))) {
				sb.WriteByte('1')
			} else {
				sb.WriteByte('0')
			}
		}
		return sb.String(), true
	case "lower":
		var s []string
		for c := 0; c < 256; c++ {
			s = append(s, strconv.Itoa(int(vByteToLower(byte(c)))))
		}
		return strings.Join(s, " "), true
	case "cmpeq":
		return vb01(vCmpEq(vUnhex(t[1]), vUnhex(t[2]))), true
	case "lws":
		b := vClip(vUnhex(t[1]), vNat(t[2]))
		n, crl, e := skipLWS(b, vNat(t[3]), POptFlags(vNat(t[4])))
		return fmt.Sprintf("%d,%d,%s", n, crl, vErrName(e)), true
	case "crlf":
		b := vClip(vUnhex(t[1]), vNat(t[2]))
		n, crl, e := skipCRLF(b, vNat(t[3]))
		return fmt.Sprintf("%d,%d,%s", n, crl, vErrName(e)), true
	case "uriparamseq":
		r, e := URIParamsEq(vUnhex(t[1]), vNat(t[2]), vUnhex(t[3]), vNat(t[4]))
		return fmt.Sprintf("%s,%s", vb01(r), vErrName(e)), true
	case "urihdrseq":
		r, e := URIHdrsEq(vUnhex(t[1]), vNat(t[2]), vUnhex(t[3]), vNat(t[4]))
		return fmt.Sprintf("%s,%s", vb01(r), vErrName(e)), true
	}
	return "", false
}

func vRunURICmp(flags int, pairs []string) (res string) {
	var out []string
	defer func() {
		if r := recover(); r != nil {
			out = append(out, "PANIC")
			res = strings.Join(out, " | ")
		}
	}()
	var r1, r2 PsipURI
	for k := 0; k+1 < len(pairs); k += 2 {
		ra, rb := vUnhex(pairs[k]), vUnhex(pairs[k+1])
		r, e, w := URIParseCmp(ra, rb, URICmpFlags(flags), &r1, &r2)
		sep := "-"
		var u1, u2 PsipURI
		e1, _ := ParseURI(ra, &u1)
		e2, _ := ParseURI(rb, &u2)
		if e1 == 0 && e2 == 0 {
			sep = vb01(URICmp(&u1, ra, &u2, rb, URICmpFlags(flags)))
		}
		// URIRawCmp must agree with URIParseCmp (same code path with nil out-params)
		rr, re, rw := URIRawCmp(ra, rb, URICmpFlags(flags))
		if rr != r || re != e || rw != w {
			sep += "!raw"
		}
		out = append(out, fmt.Sprintf("%s,%s,%d r1={%s} r2={%s} sep=%s", vb01(r), vURIErrName(e), w,
			vURI(&r1), vURI(&r2), sep))
	}
	return strings.Join(out, " | ")
}

// VerifRun interprets one session line on the implementation.
func VerifRun(line string) string {
	var segs [][]string
	for _, seg := range strings.Split(line, " | ") {
		segs = append(segs, strings.Fields(seg))
	}
	if len(segs) == 0 || len(segs[0]) == 0 {
		return ""
	}
	hd := segs[0]
	if hd[0] == "uricmp" {
		return vRunURICmp(vNat(hd[1]), hd[2:])
	}
	if r, ok := vRunFunc(hd); ok {
		return r
	}
	s := vNewSess(hd)
	for _, op := range segs[1:] {
		if len(op) == 0 {
			continue
		}
		if !s.step(op) {
			break
		}
	}
	return strings.Join(s.out, " | ")
}
