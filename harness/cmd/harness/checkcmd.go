package main

import (
	"bufio"
	"encoding/json"
	"fmt"
	"os"
	"path/filepath"
	"runtime"
	"strconv"
	"strings"
	"sync"

	"github.com/intuitivelabs/sipsp"
)

type Violation struct {
	Prop  string   `json:"property"`
	Desc  string   `json:"kind"`
	Msg   string   `json:"what"`
	Lines []string `json:"sessions"`
	Out   []string `json:"impl_outputs"`
}

func runAll(lines []string, parallel bool) []string {
	res := make([]string, len(lines))
	if !parallel {
		for i, l := range lines {
			res[i] = sipsp.VerifRun(l)
		}
		return res
	}
	nw := runtime.NumCPU()
	var wg sync.WaitGroup
	var mu sync.Mutex
	next := 0
	for w := 0; w < nw; w++ {
		wg.Add(1)
		go func() {
			defer wg.Done()
			for {
				mu.Lock()
				lo := next
				next += 256
				mu.Unlock()
				if lo >= len(lines) {
					return
				}
				hi := lo + 256
				if hi > len(lines) {
					hi = len(lines)
				}
				for i := lo; i < hi; i++ {
					res[i] = sipsp.VerifRun(lines[i])
				}
			}
		}()
	}
	wg.Wait()
	return res
}

func checkMain(args []string) {
	if len(args) != 4 {
		fmt.Fprintln(os.Stderr, "usage: harness check <prop> <tier> <seed> <outdir>")
		os.Exit(2)
	}
	prop, tier := args[0], args[1]
	seed, _ := strconv.ParseUint(args[2], 10, 64)
	outdir := args[3]
	g := &Gen{r: NewRng(seed ^ uint64(len(prop))*7919 ^ uint64(prop[1])<<8 ^ uint64(prop[2])), tier: tier, dist: map[string]int{}}
	gens := map[string]func(){
		"C01": g.genC01, "C02": g.genC02, "C03": g.genC03, "C04": g.genC04, "C05": g.genC05, "C06": g.genC06,
		"C07": g.genC07, "C08": g.genC08, "C09": g.genC09, "C10": g.genC10, "C11": g.genC11, "C12": g.genC12,
		"C13": g.genC13, "C14": g.genC14, "C15": g.genC15, "C16": g.genC16, "C17": g.genC17, "C18": g.genC18,
		"C19": g.genC19, "C20": g.genC20,
	}
	f, ok := gens[prop]
	if !ok {
		fmt.Fprintln(os.Stderr, "unknown property", prop)
		os.Exit(2)
	}
	// corpus first: sessions of past failures (one per line: plain session lines)
	var corpus []string
	if fh, err := os.Open(filepath.Join("/verif/corpus", prop+".sessions")); err == nil {
		sc := bufio.NewScanner(fh)
		sc.Buffer(make([]byte, 1<<20), 64<<20)
		for sc.Scan() {
			if t := strings.TrimSpace(sc.Text()); t != "" && !strings.HasPrefix(t, "#") {
				corpus = append(corpus, t)
			}
		}
		fh.Close()
	}
	f()
	// unique lines
	idx := map[string]int{}
	var lines []string
	addLine := func(l string) {
		if _, ok := idx[l]; !ok {
			idx[l] = len(lines)
			lines = append(lines, l)
		}
	}
	for _, l := range corpus {
		addLine(l)
	}
	for _, c := range g.cases {
		for _, l := range c.Lines {
			addLine(l)
		}
	}
	outs := runAll(lines, true)
	viols := []Violation{}
	if prop == "C04" {
		// isolation: the same calls executed one after another on one goroutine give the same results
		// as executed concurrently on 16 goroutines (distinct objects and buffers)
		seq := runAll(lines, false)
		for i := range lines {
			if seq[i] != outs[i] {
				viols = append(viols, Violation{prop, "isolation", "result depends on concurrent calls on other objects", []string{lines[i]}, []string{outs[i], seq[i]}})
				break
			}
		}
	}
	nontrivial := 0
	for i := range lines {
		o := outs[i]
		if strings.Contains(o, "ErrHdrOk") || strings.Contains(o, "ErrHdrEOH") || strings.Contains(o, "ErrHdrMoreValues") || strings.Contains(o, "NoURIErr") || (!strings.Contains(o, "Err") && o != "") {
			nontrivial++
		}
	}
	verd := map[string]int{}
	for _, o := range outs {
		for _, p := range splitOut(o) {
			if _, _, e, ok := parseRet(p); ok {
				verd[e]++
			}
		}
	}
	perKind := map[string]int{}
	nviol := 0
	// the oracles are pure functions of the outputs: evaluate them on all cores, aggregate in case order
	msgs := make([]string, len(g.cases))
	{
		nw := runtime.NumCPU()
		var wg sync.WaitGroup
		for w := 0; w < nw; w++ {
			wg.Add(1)
			go func(w int) {
				defer wg.Done()
				for ci := w; ci < len(g.cases); ci += nw {
					c := &g.cases[ci]
					co := make([]string, len(c.Lines))
					for k, l := range c.Lines {
						co[k] = outs[idx[l]]
					}
					msgs[ci] = c.Check(co)
				}
			}(w)
		}
		wg.Wait()
	}
	for ci, c := range g.cases {
		co := make([]string, len(c.Lines))
		if msgs[ci] != "" {
			for k, l := range c.Lines {
				co[k] = outs[idx[l]]
			}
		}
		if msg := msgs[ci]; msg != "" {
			key := c.Desc + "|" + msg
			if len(key) > len(c.Desc)+25 {
				key = key[:len(c.Desc)+25]
			}
			perKind[key]++
			if perKind[key] <= 3 && len(viols) < 300 {
				viols = append(viols, Violation{c.Prop, c.Desc, msg, c.Lines, co})
			}
			nviol++
		}
	}
	os.MkdirAll(outdir, 0o755)
	w, _ := os.Create(filepath.Join(outdir, "sessions.txt"))
	bw := bufio.NewWriterSize(w, 1<<20)
	for _, l := range lines {
		bw.WriteString(l)
		bw.WriteByte('\n')
	}
	bw.Flush()
	w.Close()
	w, _ = os.Create(filepath.Join(outdir, "impl.out"))
	bw = bufio.NewWriterSize(w, 1<<20)
	for _, l := range outs {
		bw.WriteString(l)
		bw.WriteByte('\n')
	}
	bw.Flush()
	w.Close()
	var samples []string
	for i := 0; i < len(g.cases) && len(samples) < 3; i += 1 + len(g.cases)/3 {
		s := g.cases[i].Lines[0]
		if len(s) > 400 {
			s = s[:400] + "..."
		}
		samples = append(samples, s)
	}
	res := map[string]interface{}{
		"property": prop, "tier": tier, "seed": seed, "cases": len(g.cases), "sessions": len(lines),
		"corpus_sessions": len(corpus), "distinct_nontrivial": nontrivial, "distribution": g.dist,
		"verdict_histogram": verd, "violations": viols, "violations_total": nviol, "samples": samples,
	}
	js, _ := json.MarshalIndent(res, "", " ")
	os.WriteFile(filepath.Join(outdir, "result.json"), js, 0o644)
	fmt.Printf("cases=%d sessions=%d violations=%d\n", len(g.cases), len(lines), len(viols))
}
