package main

// Per-property case generation (metamorphic properties C01-C04, C11-C13 here; the
// reference-based ones are in props2.go).

import (
	"fmt"
	"regexp"
	"strings"
)

type Gen struct {
	r     *Rng
	tier  string
	cases []Case
	dist  map[string]int
}

func (g *Gen) add(c Case) {
	g.cases = append(g.cases, c)
	g.dist[c.Desc]++
}

// quickMult scales every quick-tier budget (the thorough budgets are fixed). The quick budgets were set when
// the model driver ran on one core; it is sharded over the cores now, so the same wall time covers more cases.
const quickMult = 10

func (g *Gen) budget(quick, thorough int) int {
	if g.tier == "thorough" {
		return thorough
	}
	if quick*quickMult > thorough {
		return thorough
	}
	return quick * quickMult
}

// ---------------------------------------------------------------- inputs

func (g *Gen) msgText() (text string, kind string) {
	r := g.r
	o := MsgOpts{LWS: r.P(60), MixedEOL: r.P(35), Body: -1, CLen: -2, Reply: -1}
	ms := r.Msg(o)
	t := ms.Text
	switch r.N(10) {
	case 0, 1:
		return r.Mutate(t), "msg-mutated"
	case 2:
		return t[:r.N(len(t)+1)], "msg-truncated"
	case 3:
		m2 := r.Msg(o)
		return t + m2.Text, "msg-pipelined"
	case 4:
		// the declared Content-Length / Expires / CSeq number replaced by a boundary number (2^16, 2^24, 2^32, 10^9 …
		// ± 1, leading zeros, 10 – 40 digits): the range checks must give the same answer however the number is cut
		if loc := msgNumberRe.FindStringSubmatchIndex(t); loc != nil && r.P(60) {
			return t[:loc[2]] + r.Digits() + t[loc[3]:], "msg-boundary-number"
		}
	}
	return t, "msg-valid"
}

var msgCLenRe = regexp.MustCompile(`(?i)\n(?:content-length|l)[ \t]*:[ \t]*(\d+)`)
var msgNumberRe = regexp.MustCompile(`(?i)\n(?:content-length|l|expires|cseq)[ \t]*:[ \t]*(\d+)`)

func capStr(r *Rng, max int) string {
	switch r.N(6) {
	case 0:
		return "-"
	case 1:
		return "0"
	case 2:
		return "1"
	default:
		return fmt.Sprint(r.N(max + 1))
	}
}

// standalone returns a session header, an input text and flags for one of the exported
// stand-alone streaming parsers.
func (g *Gen) standalone() (hd, text string, flags int, kind string) {
	r := g.r
	lws := r.P(60)
	tailCh := r.Pick("X", "X", "a", "1", ":", "")
	eol := r.EOL()
	mut := func(s string) string {
		switch r.N(8) {
		case 0:
			return r.Mutate(s)
		case 1:
			return s[:r.N(len(s)+1)]
		}
		return s
	}
	switch r.N(17) {
	case 0:
		ms := r.Msg(MsgOpts{Reply: -1, MixedEOL: true})
		return "fline", mut(ms.FLine + tailCh), 0, "fline"
	case 1:
		t := []int{1, 2, 3, 4, 5, 7, 8, 9, 13, 14, 14, 10}[r.N(12)]
		name := r.HdrName(t)
		val := r.genValue(t, lws, "INVITE", nil)
		if t == 7 {
			val = r.Digits()
		}
		line := name + r.Pick("", " ", "\t") + ":" + r.LWS0() + val + r.Pick("", " ", "\t") + eol + tailCh
		if r.P(50) {
			return "hdrline 0 0", mut(line), 0, "hdrline-nil"
		}
		return fmt.Sprintf("hdrline 1 %d", r.N(4)), mut(line), 0, "hdrline-vals"
	case 2:
		ms := r.Msg(MsgOpts{LWS: lws, MixedEOL: r.P(40), Body: 0, CLen: -2, Reply: 0})
		blk := ms.Text[len(ms.FLine):] + tailCh
		hb := r.N(2)
		return fmt.Sprintf("headers %d %d %d", r.N(12), hb, r.N(4)), mut(blk), 0, "headers"
	case 3, 4:
		t := []int{1, 2, 8, 11, 12, 13}[r.N(6)]
		e := r.NameAddr(lws, t == 8)
		txt := r.LWS0() + e.Text + r.Pick("", " ", "\t") + r.Pick("", ", "+r.NameAddr(lws, false).Text) + eol + tailCh
		return fmt.Sprintf("nameaddr %d", t), mut(txt), 0, "nameaddr"
	case 5:
		e := r.NameAddr(lws, false)
		return "pai1", mut(e.Text + r.Pick("", ",<sip:x@y>") + eol + tailCh), 0, "pai1"
	case 6, 7:
		val := r.genValue(8, lws, "", nil)
		if r.P(20) {
			val = "*"
		}
		return fmt.Sprintf("contacts %d", r.N(5)), mut(r.LWS0() + val + eol + tailCh), 0, "contacts"
	case 8:
		val := r.genValue(13, lws, "", nil)
		return "pais", mut(r.LWS0() + val + eol + tailCh), 0, "pais"
	case 9:
		return "cseq", mut(r.LWS0() + r.genValue(4, lws, r.Pick("INVITE", "ACK", "FOO", "9X"), nil) + r.Pick("", " ") + eol + tailCh), 0, "cseq"
	case 10:
		return "callid", mut(r.LWS0() + r.genValue(3, lws, "", nil) + r.Pick("", " ") + eol + tailCh), 0, "callid"
	case 11:
		k := r.Pick("uint", "clen")
		return k, mut(r.LWS0() + r.Digits() + r.Pick("", " ") + eol + tailCh), 0, k
	case 12, 13:
		fl := []int{0, 1, 2, 4, 16, 32, 64, 128, 1 | 16, 4 | 16, 2 | 32, 64 | 2, 128 | 4, 5, 6, 7, 16 | 4 | 1}[r.N(17)]
		sep := ";"
		if fl&(32|128) != 0 {
			sep = "&"
		}
		lst := g.paramListText(sep, lws)
		term := r.Pick("", ",x", "?y", " tok", eol+tailCh, eol+tailCh)
		return "tokparam", mut(lst + term), fl, "tokparam"
	case 14:
		lst := g.paramListText(";", lws)
		fl := []int{64, 64, 64 | 2, 64 | 4, 0, 1}[r.N(6)]
		return fmt.Sprintf("uriparams %d", r.N(6)), mut(lst + r.Pick("", "?h=1", eol+tailCh, " x")), fl, "uriparams"
	case 15:
		lst := g.paramListText("&", lws)
		fl := []int{128, 128, 128 | 4, 0, 1}[r.N(5)]
		return fmt.Sprintf("urihdrs %d", r.N(6)), mut(lst + r.Pick("", eol+tailCh, " x", ",z")), fl, "urihdrs"
	default:
		q := r.Quoted()
		if r.P(15) { // a quoted string far longer than any fixed-size look-back (lengths around 255 / 256 and beyond)
			q = "\"" + strings.Repeat(r.Pick("a", "ab", "x y", "\\\\", "\xc3\xa9"), 1)
			n := []int{250, 254, 255, 256, 257, 300, 700}[r.N(7)]
			for len(q) < n {
				q += r.Pick("a", "b", " ", "\\\"", ";", "q")
			}
			q += "\""
			if r.P(50) {
				fl := []int{0, 1, 16, 64}[r.N(4)]
				return "tokparam", "n=" + q + r.Pick(";x=y"+eol+tailCh, eol+tailCh, ",z"), fl, "tokparam-long-quoted"
			}
		}
		return "skipq", mut(q[1:] + r.Pick("", "x", " ", eol)), 0, "skipquoted"
	}
}

func (g *Gen) paramListText(sep string, lws bool) string {
	r := g.r
	n := r.N(6)
	var sb strings.Builder
	ws := func() string {
		if lws {
			return r.LWS0()
		}
		return ""
	}
	for i := 0; i < n; i++ {
		if i > 0 {
			sb.WriteString(ws() + sep + ws())
			if r.P(8) {
				sb.WriteString(sep) // empty item
			}
		}
		name := r.Alnum(1, 6)
		if r.P(35) {
			name = r.KnownParamName()
		}
		sb.WriteString(name)
		switch r.N(5) {
		case 0: // no value
		case 1:
			sb.WriteString(ws() + "=" + ws() + r.Quoted())
		case 2:
			sb.WriteString("=") // empty value
		default:
			sb.WriteString(ws() + "=" + ws() + r.Token(1, 8))
		}
	}
	return sb.String()
}

func msgHd(r *Rng) string {
	if r.P(5) {
		return "msgz"
	}
	return "msg " + capStr(r, 14) + " " + capStr(r, 5)
}

// ---------------------------------------------------------------- C01

func (g *Gen) genC01() {
	g.exhResume("C01", "msg")
	r := g.r
	n := g.budget(1500, 40000)
	for i := 0; i < n; i++ {
		text, kind := g.msgText()
		flags := []int{0, 0, 0, 1, 2, 3, 4, 5, 6, 7}[r.N(10)]
		lastFlags := flags
		if flags&4 == 0 && r.P(15) {
			lastFlags = flags | 4
		}
		start := 0
		buf := text
		if r.P(15) {
			j := r.RandBytes("", 1, 20)
			buf = j + text
			start = len(j)
		}
		cuts := r.Cuts(text, len(text))
		for k := range cuts {
			cuts[k] += start
		}
		g.add(resumeCase("C01", msgHd(r), buf, start, cuts, flags, lastFlags, kind))
	}
	// numbers at the limits of their header (Content-Length: 2^24 and 9 digits; Expires / CSeq: 2^32 and 10 digits; leading
	// zeros; 10 – 40 digits) inside a whole message, the stream cut at EVERY position inside the number (and one byte
	// around it): the range checks of the resumed value parsers must answer like the one-shot ones
	m := g.budget(300, 8000)
	for i := 0; i < m; i++ {
		ms := r.Msg(MsgOpts{LWS: r.P(40), Body: -1, CLen: -2, Reply: -1})
		t := ms.Text
		loc := msgCLenRe.FindStringSubmatchIndex(t)
		if loc == nil || r.P(35) {
			loc = msgNumberRe.FindStringSubmatchIndex(t)
		}
		if loc == nil {
			continue
		}
		d := r.Digits()
		t = t[:loc[2]] + d + t[loc[3]:]
		lo, hi := loc[2]-1, loc[2]+len(d)+1
		for c := lo; c <= hi && c < len(t); c++ {
			if c < 1 {
				continue
			}
			g.add(resumeCase("C01", msgHd(r), t, 0, []int{c, len(t)}, 0, 0, "msg-boundary-number-cut"))
		}
	}
}

// ---------------------------------------------------------------- C02

func (g *Gen) genC02() {
	g.exhResume("C02", "na tp hl num sq fl")
	r := g.r
	n := g.budget(4000, 120000)
	for i := 0; i < n; i++ {
		hd, text, flags, kind := g.standalone()
		start := 0
		buf := text
		if r.P(20) {
			j := r.RandBytes(" \t\r\n;,=\"ab1", 1, 8)
			buf = j + text
			start = len(j)
		}
		cuts := r.Cuts(text, len(text))
		for k := range cuts {
			cuts[k] += start
		}
		// the end-of-input option only makes sense on the last chunk
		f0 := flags &^ 8
		g.add(resumeCase("C02", hd, buf, start, cuts, f0, flags, kind))
	}
	// the end-of-input option on the LAST call: lists whose text stops right after a line end, inside white space,
	// inside a quoted string, after a separator / '=' (every suspension site of the parameter parser at the end of input)
	m := g.budget(800, 30000)
	for i := 0; i < m; i++ {
		fl := []int{0, 1, 2, 4, 16, 64, 128, 64 | 2, 128 | 4, 1 | 16, 32, 4 | 16}[r.N(12)]
		sep := ";"
		if fl&(32|128) != 0 {
			sep = "&"
		}
		hd := "tokparam"
		if fl&64 != 0 {
			hd = fmt.Sprintf("uriparams %d", r.N(5))
		} else if fl&128 != 0 {
			hd = fmt.Sprintf("urihdrs %d", r.N(5))
		}
		eol := r.EOL()
		text := g.paramListText(sep, r.P(50)) + r.Pick(eol, eol, eol+" ", eol+"\t", "=\"abc", "=\"a\\", "=\"a\\\"", " ", "\t ", "", sep, "=", " = ", eol+eol, sep+eol, "="+eol, " "+eol)
		if len(text) == 0 {
			continue
		}
		cuts := r.Cuts(text, len(text))
		g.add(resumeCase("C02", hd, text, 0, cuts, fl, fl|8, "list-end-of-input"))
	}
}

// ---------------------------------------------------------------- C03

var suffixes = []string{" ", "\t", "\r", "\n", "\r\n", "\r\n ", "\r\nX", "0", "9", "\"", "\\", ";", ",", "=", "a", ":", "<", ">", "\r\n\r\n", "xyz\r\n"}

func (g *Gen) genC03() {
	g.exhStable("C03", "")
	r := g.r
	n := g.budget(2500, 80000)
	for i := 0; i < n; i++ {
		var hd, text, kind string
		flags := 0
		if r.P(35) {
			text, kind = g.msgText()
			hd = msgHd(r)
			flags = []int{0, 1, 2, 3}[r.N(4)]
		} else {
			hd, text, flags, kind = g.standalone()
			flags &^= 8
		}
		// a prefix that is (probably) definitive: whole text or cut after some EOL
		b := text
		if r.P(50) {
			b = text[:r.N(len(text)+1)]
		}
		s := suffixes[r.N(len(suffixes))]
		if r.P(20) {
			s = r.RandBytes("", 1, 6)
		}
		if len(b) < len(text) && r.P(30) {
			// the bytes that really follow in the generated text (all of them, or only the next few): a verdict given on
			// a prefix that ends inside a multi-byte unit (line end, escape, UTF-8 sequence, number) must survive them
			s = text[len(b):]
			if r.P(50) {
				s = s[:1+r.N(min(len(s), 4))]
			}
		}
		g.add(stableCase("C03", hd, b, s, 0, flags, kind))
		// directed: a token parameter (list) whose prefix ends right after a value and some white space, in every
		// terminator mode (space-terminated lists included): nothing definitive may be said before the next byte
		if i%16 == 0 {
			fl := []int{4, 4 | 16, 4 | 1, 0, 16, 64, 128 | 4, 2 | 4}[r.N(8)]
			hd2 := "tokparam"
			if fl&64 != 0 {
				hd2 = fmt.Sprintf("uriparams %d", r.N(4))
			} else if fl&128 != 0 {
				hd2 = fmt.Sprintf("urihdrs %d", r.N(4))
			}
			val := r.Pick(r.Token(1, 6), r.Quoted(), "")
			b2 := r.Alnum(1, 5) + r.Pick("=", " =", "= ") + val + r.Pick(" ", "\t", "  ", " \t ")
			s2 := r.Pick(";x=1", "tok", "\r\nX", "\r\n cont", "=z", ",n", "?h", "&y", " ")
			g.add(stableCase("C03", hd2, b2, s2, 0, fl, "tokparam-after-ws"))
		}
	}
}

// ---------------------------------------------------------------- C04

func (g *Gen) genC04() {
	r := g.r
	n := g.budget(6000, 300000)
	for i := 0; i < n; i++ {
		var hd, text, kind string
		flags := 0
		switch r.N(10) {
		case 0, 1, 2:
			text, kind = g.msgText()
			hd = msgHd(r)
			flags = r.N(8)
		case 3:
			hd = msgHd(r)
			text = r.RandBytes("", 0, 60)
			kind = "msg-randbytes"
			flags = r.N(8)
		case 4, 5:
			hd, _, flags, kind = g.standalone()
			text = r.RandBytes(" \t\r\n;,=\"\\<>:@*?&a1Z.-[]", 0, 40)
			kind += "-randalpha"
		default:
			hd, text, flags, kind = g.standalone()
			if r.P(40) {
				text = r.Mutate(text)
			}
		}
		start := 0
		if r.P(25) {
			start = r.N(len(text) + 1)
		}
		cuts := r.Cuts(text, len(text))
		var good []int
		for _, c := range cuts {
			if c >= start {
				good = append(good, c)
			}
		}
		if len(good) == 0 {
			good = []int{len(text)}
		}
		line := parseSess(hd, text, start, good, flags, true, "")
		var calls []pcall
		for j, c := range good {
			st := -1
			if j == 0 {
				st = start
			}
			calls = append(calls, pcall{c, st})
		}
		if strings.HasPrefix(hd, "msg") && r.P(50) {
			line += " | G" // the signature function in whatever state the parse is in (complete, suspended, failed)
		}
		g.add(safetyCase("C04", line, calls, nil, kind))
	}
	// first lines with runs of blanks where one SP is expected (after the version of a reply, between the tokens of a
	// request), cut after every byte: the look-ahead of the status-code test must stay inside the buffer
	for _, head := range []string{"SIP/2.0", "sip/2.0", "INVITE", "SIP/2.0 200", "INVITE sip:a@b"} {
		for k := 0; k <= 9; k++ {
			for _, bl := range []string{" ", "\t", " \t"} {
				blanks := strings.Repeat(bl, k)[:k]
				for _, tail := range []string{"", "2", "20", "200", "200 ", "200 OK\r\n\r\n", "\r\n", "\r\n\r\n", "sip:a@b SIP/2.0\r\n\r\n", "OK\r\n"} {
					text := head + blanks + tail
					if len(text) == 0 {
						continue
					}
					cuts := []int{len(text)}
					if k%3 == 0 && tail == "" {
						cuts = allCuts(len(text))
					}
					var calls []pcall
					for j, c := range cuts {
						st := -1
						if j == 0 {
							st = 0
						}
						calls = append(calls, pcall{c, st})
					}
					g.add(safetyCase("C04", parseSess("msg - -", text, 0, cuts, r.N(8), true, ""), calls, nil, "fline-blank-runs"))
					g.add(safetyCase("C04", parseSess("fline", text, 0, cuts, 0, true, ""), calls, nil, "fline-blank-runs"))
				}
			}
		}
	}
	// reuse after Reset/Init (abandoned or failed parses before): must not panic either
	hN := g.budget(1500, 50000)
	for i := 0; i < hN; i++ {
		hd := "msg " + r.Pick("-", "0", "1", "2", "3", "5", "8") + " " + r.Pick("-", "0", "1", "2", "3", "4")
		var sb strings.Builder
		sb.WriteString(hd)
		steps := 1 + r.N(3)
		var calls []pcall
		for s := 0; s <= steps; s++ {
			t, _ := g.msgText()
			cut := len(t)
			if s < steps && r.P(65) {
				ps := interesting(t)
				cut = r.N(len(t) + 1)
				if len(ps) > 0 && r.P(50) {
					cut = ps[r.N(len(ps))]
				}
			}
			fmt.Fprintf(&sb, " | B %s | P %d 0 %d | O", hx(t), cut, r.N(8))
			calls = append(calls, pcall{cut, 0})
			if s < steps {
				sb.WriteString(" | " + r.Pick("R", "I"))
			}
		}
		if r.P(50) {
			sb.WriteString(" | G") // the signature function in whatever state the object is in
		}
		g.add(safetyCase("C04", sb.String(), calls, nil, "msg-reuse-history"))
	}
	// pure functions on hostile input (lookup, compare, relocation, signature)
	m := g.budget(3000, 100000)
	for i := 0; i < m; i++ {
		alpha := []string{"", "0123456789.x", "0123456789abcdef:[]x", "sipSIPtel:@;?&=[].a1", "abAB-_@.:*/+=|19"}[r.N(5)]
		s := r.RandBytes(alpha, 0, 24)
		var line, kind string
		if r.P(25) {
			s = ip6Shape(r)
		} else if r.P(25) {
			s = sigShape(r)
		} else if r.P(10) { // Call-ID shapes: hex / decimal blocks right before and after an address, very long ids
			ip := r.Pick("10.0.0.1", "192.168.1.255", "::1", "fe80::1:2", "1:2:3:4:5:6:7:8", "[2001:db8::1]")
			s = r.RandBytes("0123456789abcdefABCDEF", 0, 9) + r.Pick("", "-", "@", ".", ":") + ip + r.Pick("", "-", "@", ".") + r.RandBytes("0123456789abcdef-@", 0, 12)
			if r.P(15) {
				s += strings.Repeat(r.Pick("a", "0f", "x-", "9."), 100+r.N(80))
			}
		}
		switch r.N(18) {
		case 16: // a Via value cut anywhere (the parameter parser then asks for more bytes) or with a bad byte
			v := "SIP/2.0/UDP " + r.Host() + r.Pick("", ";rport", ";ttl=3", ";x=\"q") + ";" + r.Pick("branch", "BRANCH", "bRanch") + "=" + r.Pick("z9hG4bK", "") + r.Alnum(1, 9) + r.Pick("", ";y", "\r\n", "\r\nX", " ", ", SIP/2.0/TCP h2;branch=z9hG4bKzz")
			line, kind = "viabrsig "+hx(v[:r.N(len(v)+1)]), "viabrsig-cut"
		case 17: // comparison helpers: the SECOND list is the malformed one
			if r.P(50) {
				line, kind = fmt.Sprintf("uriparamseq %s 0 %s 0", hx(r.ParamList(";", 4)), hx(s)), "uriparamseq-2nd-bad"
			} else {
				line, kind = fmt.Sprintf("urihdrseq %s 0 %s 0", hx(r.ParamList("&", 4)), hx(s)), "urihdrseq-2nd-bad"
			}
		case 14, 15: // result buffers of every length (also odd ones, and longer than the address)
			if r.P(50) {
				s = r.Pick("1.2.3.4", "255.255.255.255", "::1", "[::]", "1:2:3:4:5:6:7:8", "id-a::b@host", "x9.8.7.6y", "fe80::1:2", "::ffff:1.2.3.4", s)
			}
			op := r.Pick("ip4prefixd", "containsip4d", "ip6prefixd", "containsip6d", "ip6prefixd", "containsip6d")
			line, kind = fmt.Sprintf("%s %s %d", op, hx(s), r.N(20)), op
		case 0:
			line, kind = "hdrtype "+hx(s), "hdrtype"
		case 1:
			line, kind = "methodno "+hx(s), "methodno"
		case 2:
			line, kind = "ip4prefix "+hx(s), "ip4prefix"
		case 3:
			line, kind = "containsip4 "+hx(s), "containsip4"
		case 4:
			line, kind = "ip6prefix "+hx(s), "ip6prefix"
		case 5:
			line, kind = "containsip6 "+hx(s), "containsip6"
		case 6:
			line, kind = "callidsig "+hx(s), "callidsig"
		case 7:
			line, kind = "viabrsig "+hx(s), "viabrsig"
		case 8:
			line, kind = fmt.Sprintf("strsig %s %d %d", hx(s), r.N(len(s)+1), r.N(len(s)+1)), "strsig"
		case 9:
			u := r.URI()
			if r.P(40) {
				u = "sip:" + s
			}
			if r.P(15) { // inputs around the scheme-length guards
				u = r.ReCase(r.Pick("", "s", "si", "sip", "sips", "tel", "sip:", "tel:", "sips:", "sipx", "sips;")) + r.RandBytes("a:@;?1", 0, 2)
			}
			ao, al := r.N(300), r.N(len(u)+4)
			if r.P(25) { // target spans at and beyond the 16-bit range
				ao = []int{65535 - len(u), 65535 - r.N(len(u)+1), 1 + r.N(50), 30000 + r.N(35535), 65535}[r.N(5)]
				al = []int{len(u), len(u) + 1 + r.N(3), 65535, 36000 + r.N(29535), r.N(len(u) + 4)}[r.N(5)]
			}
			line = fmt.Sprintf("uri | B %s | P %d 0 0 | O | V | T | V | A %d %d | O", hx(u), len(u), ao, al)
			kind = "uri-views-adjust"
		case 10:
			line, kind = fmt.Sprintf("uricmp %d %s %s %s %s", r.N(64), hx(r.URI()), hx("sip:"+s), hx(r.URI()), hx(r.URI())), "uricmp"
		case 11:
			line, kind = fmt.Sprintf("uriparamseq %s 0 %s 0", hx(s), hx(r.ParamList(";", 4))), "uriparamseq"
		case 12:
			line, kind = fmt.Sprintf("urihdrseq %s 0 %s 0", hx(s), hx(r.ParamList("&", 4))), "urihdrseq"
		default:
			line, kind = fmt.Sprintf("methodname %d", r.N(256)), "methodname"
		}
		g.add(safetyCase("C04", line, nil, nil, kind))
	}
}

// ip6Shape: texts around the IPv6 grammar — 0..10 groups of hex digits, "::" anywhere (also twice), brackets present /
// missing / unbalanced, too many colons, an IPv4 tail, junk behind the address.
func ip6Shape(r *Rng) string {
	var sb strings.Builder
	if r.P(30) {
		sb.WriteString("[")
	}
	n := r.N(11)
	dbl := -1
	if r.P(60) {
		dbl = r.N(n + 1)
	}
	for i := 0; i < n; i++ {
		if i == dbl {
			sb.WriteString(r.Pick("::", "::", ":::"))
		} else if i > 0 {
			sb.WriteString(":")
		}
		sb.WriteString(r.RandBytes("0123456789abcdefABCDEF", 0, 4) + r.Pick("", "", "", "", "0", "g"))
	}
	if dbl == n {
		sb.WriteString("::")
	}
	if r.P(10) {
		sb.WriteString(r.Pick(":1.2.3.4", "1.2.3.4", ".1"))
	}
	if r.P(35) {
		sb.WriteString("]")
	}
	sb.WriteString(r.Pick("", "", "", "x", ":", ":5060", "]", " ", "%eth0", ";p", "@h"))
	return sb.String()
}

// ---------------------------------------------------------------- C11

func (g *Gen) genC11() {
	g.exhShift("C11", "")
	r := g.r
	// degenerate lists (empty, blank, only a separator / a line end) in every option mode incl. the end-of-input
	// option: an "empty buffer" test must look at what is left after the offset, not at the absolute length
	for _, hd := range []string{"tokparam", "uriparams 0", "uriparams 2", "urihdrs 0", "urihdrs 2"} {
		for _, text := range []string{"", " ", "\t ", "\r\n", "\r\nX", ";", "&", "a", "a=", "=", "?", ","} {
			for _, fl := range []int{0, 8, 64, 64 | 8, 128, 128 | 8, 1 | 8, 2 | 8, 4 | 8, 16 | 8, 32 | 8} {
				for _, junk := range []string{"x", "sip:a@b.c", "\x00\x00\x00"} {
					g.add(shiftCase("C11", hd, text, junk, []int{len(text)}, fl, "", "degenerate-list"))
				}
			}
		}
	}
	n := g.budget(2500, 80000)
	nlimit := 0
	for i := 0; i < n; i++ {
		var hd, text, kind, tail string
		flags := 0
		if r.P(40) {
			text, kind = g.msgText()
			hd = msgHd(r)
			flags = r.N(8)
		} else {
			hd, text, flags, kind = g.standalone()
		}
		var junk string
		switch r.N(6) {
		case 0:
			junk = r.RandBytes("", 1, 1)
		case 1:
			junk = strings.Repeat("\x00", 1+r.N(300))
		case 2:
			junk = text
		case 3: // the text ends exactly at the 65535 limit (64 KiB sessions: a bounded number of them)
			k := 65535 - len(text)
			nlimit++
			if nlimit > g.budget(40, 3000) {
				k = 1 + r.N(4000)
			}
			if k > 0 {
				junk = strings.Repeat(r.Pick("x", " ", "\r\n", ";"), k)[:k]
			} else {
				junk = "j"
			}
		default:
			junk = r.RandBytes(" \t\r\n;,=\"<>a1", 1, 300)
		}
		cuts := []int{len(text)}
		if r.P(40) {
			cuts = r.Cuts(text, len(text))
		}
		g.add(shiftCase("C11", hd, text, junk, cuts, flags, tail, kind))
	}
	// relocation of parsed URIs (twice, so that a relocated URI is relocated again)
	m := g.budget(800, 30000)
	for i := 0; i < m; i++ {
		u := r.URI()
		k1, k2 := 1+r.N(300), r.N(60000)
		if k2+len(u) > 65535 {
			k2 = 65535 - len(u)
		}
		ln := len(u) + r.N(3)
		base := fmt.Sprintf("uri | B %s | P %d 0 0 | O", hx(u), len(u))
		moved := fmt.Sprintf("uri | B %s | P %d 0 0 | A %d %d | A %d %d | O", hx(u), len(u), k1, ln, k2, ln)
		kk := k2
		g.add(Case{Prop: "C11", Desc: "uri-relocate-twice", Lines: []string{base, moved}, Check: func(out []string) string {
			a, b := splitOut(out[0]), splitOut(out[1])
			if len(a) < 2 || len(b) < 4 {
				return "panic or short output: " + tailOf(out[1], 60)
			}
			if !strings.HasPrefix(a[0], "NoURIErr") {
				return ""
			}
			if b[1] != "1" || b[2] != "1" {
				return fmt.Sprintf("relocation onto a span that holds the URI was refused (%s, %s)", b[1], b[2])
			}
			// every present component (Offs != 0) must be shifted by exactly k2; scheme always
			exp := offLenRe.ReplaceAllStringFunc(a[1], func(m string) string {
				var o, l int
				fmt.Sscanf(m, "%d:%d", &o, &l)
				if o == 0 && l == 0 {
					return m
				}
				return fmt.Sprintf("%d:%d", o+kk, l)
			})
			exp = strings.Replace(exp, "sch=0:", fmt.Sprintf("sch=%d:", kk), 1)
			if exp != b[3] {
				return "components after two relocations are not the original ones shifted: " + firstDiff(b[3], exp)
			}
			return ""
		}})
	}
}

// ---------------------------------------------------------------- C12

func (g *Gen) genC12() {
	g.exhReset("C12", "")
	r := g.r
	n := g.budget(2500, 80000)
	for i := 0; i < n; i++ {
		var hd, kind string
		isMsg := r.P(45)
		var gen func() (string, int)
		if isMsg {
			hd = "msg " + r.Pick("-", "0", "1", "2", "3", "5", "8") + " " + r.Pick("-", "0", "1", "2", "3", "4")
			kind = "msg-history"
			gen = func() (string, int) { t, _ := g.msgText(); return t, r.N(8) }
		} else {
			var fl int
			// keep the same kind for the whole history
			for {
				hd, _, fl, kind = g.standalone()
				if hd != "skipq" {
					break
				}
			}
			kk := strings.Fields(hd)[0]
			gen = func() (string, int) {
				for tries := 0; tries < 200; tries++ {
					h2, t2, f2, _ := g.standalone()
					if strings.Fields(h2)[0] == kk {
						if kk == "tokparam" || kk == "uriparams" || kk == "urihdrs" {
							return t2, f2
						}
						return t2, fl
					}
				}
				return "x", fl
			}
			kind += "-history"
		}
		steps := 1 + r.N(4)
		var hist []histStep
		for s := 0; s < steps; s++ {
			t, f := gen()
			cut := len(t)
			if r.P(55) {
				cut = r.N(len(t) + 1) // abandoned while suspended (or failed earlier)
				ps := interesting(t)
				if len(ps) > 0 && r.P(50) {
					cut = ps[r.N(len(ps))]
				}
			}
			how := "R"
			if r.P(30) {
				how = "I"
			}
			hist = append(hist, histStep{t, cut, f &^ 8, how})
		}
		fin, ff := gen()
		tail := ""
		if isMsg && r.P(30) {
			tail = "G"
		}
		g.add(resetCase("C12", hd, hist, fin, ff, tail, kind))
	}
	// parsed URI: Reset then parse again
	m := g.budget(300, 10000)
	for i := 0; i < m; i++ {
		u1, u2 := r.URI(), r.URI()
		if r.P(30) {
			u1 = r.Mutate(u1)
		}
		used := fmt.Sprintf("uri | B %s | P %d 0 0 | R | B %s | P %d 0 0 | O", hx(u1), len(u1), hx(u2), len(u2))
		fresh := fmt.Sprintf("uri | B %s | P %d 0 0 | O", hx(u2), len(u2))
		g.add(Case{Prop: "C12", Desc: "uri-reset", Lines: []string{used, fresh}, Check: func(out []string) string {
			a, b := splitOut(out[0]), splitOut(out[1])
			if len(a) < 3 || len(b) < 2 {
				return "short output"
			}
			if a[1] != b[0] || a[2] != b[1] {
				return "reset PsipURI parses differently from a new one: " + firstDiff(a[2], b[1])
			}
			return ""
		}})
	}
}

// ---------------------------------------------------------------- C13

func (g *Gen) genC13() {
	r := g.r
	n := g.budget(1200, 40000)
	for i := 0; i < n; i++ {
		switch r.N(10) {
		case 0, 1, 2, 3, 4: // whole message, header and contact capacities
			text, kind := g.msgText()
			flags := r.N(8)
			cuts := []int{len(text)}
			if r.P(50) {
				cuts = r.Cuts(text, len(text))
			}
			body := strings.TrimPrefix(parseSess("", text, 0, cuts, flags, false, "O"), "")
			var hds []string
			for k := 0; k < 3; k++ {
				hds = append(hds, fmt.Sprintf("msg %d %d", r.N(13), r.N(6)))
			}
			hds = append(hds, "msg 0 0", "msgz", "msg - -", "msg 40 40")
			g.add(capCase("C13", hds, body, kind+"-caps", true))
		case 5, 6: // contacts
			val := r.genValue(8, r.P(50), "", nil)
			text := val + r.EOL() + "X"
			cuts := r.Cuts(text, len(text))
			body := parseSess("", text, 0, cuts, 0, false, "O")
			if r.P(25) {
				h := r.genValue(8, false, "", nil)
				if len(h) > 0 {
					body = fmt.Sprintf(" | B %s | P %d 0 0 | R", hx(h), 1+r.N(len(h))) + body
				}
			}
			g.add(capCase("C13", []string{"contacts 0", "contacts 1", "contacts 2", "contacts 3", "contacts 9"}, body, "contacts-caps", false))
		case 7: // header block
			ms := r.Msg(MsgOpts{LWS: r.P(50), Body: 0, CLen: -2, Reply: 0})
			text := ms.Text[len(ms.FLine):] + "X"
			cuts := r.Cuts(text, len(text))
			hb := r.N(2)
			body := parseSess("", text, 0, cuts, 0, false, "O")
			var hds []string
			for _, c := range []int{0, 1, 2, 3, 5, 8, 40} {
				hds = append(hds, fmt.Sprintf("headers %d %d %d", c, hb, 40))
			}
			g.add(capCase("C13", hds, body, "headers-caps", true))
		case 8:
			lst := g.paramListText(";", r.P(40))
			fl := []int{64, 64 | 8, 8, 0}[r.N(4)]
			text := lst + r.Pick("", "?h", "\r\nX")
			cuts := r.Cuts(text, len(text))
			f0 := fl &^ 8
			var sb strings.Builder
			sb.WriteString(" | B " + hx(text))
			for j, c := range cuts {
				o, f := "c", f0
				if j == 0 {
					o = "0"
				}
				if j == len(cuts)-1 {
					f = fl
				}
				fmt.Fprintf(&sb, " | P %d %s %d", c, o, f)
			}
			sb.WriteString(" | O")
			body := sb.String()
			if r.P(25) { // the same list object used before: a parse abandoned wherever it stopped, then Reset
				h := g.paramListText(";", false) + r.Pick("", ";", "=", "=\"q")
				if len(h) > 0 {
					body = fmt.Sprintf(" | B %s | P %d 0 %d | R", hx(h), 1+r.N(len(h)), f0) + body
				}
			}
			g.add(capCase("C13", []string{"uriparams 0", "uriparams 1", "uriparams 2", "uriparams 4", "uriparams 12"}, body, "uriparams-caps", false))
		default:
			lst := g.paramListText("&", r.P(40))
			fl := []int{128, 128 | 8, 8, 0}[r.N(4)]
			text := lst + r.Pick("", "\r\nX")
			cuts := r.Cuts(text, len(text))
			f0 := fl &^ 8
			var sb strings.Builder
			sb.WriteString(" | B " + hx(text))
			for j, c := range cuts {
				o, f := "c", f0
				if j == 0 {
					o = "0"
				}
				if j == len(cuts)-1 {
					f = fl
				}
				fmt.Fprintf(&sb, " | P %d %s %d", c, o, f)
			}
			sb.WriteString(" | O")
			body := sb.String()
			if r.P(25) {
				h := g.paramListText("&", false) + r.Pick("", "&", "=", "=\"q")
				if len(h) > 0 {
					body = fmt.Sprintf(" | B %s | P %d 0 %d | R", hx(h), 1+r.N(len(h)), f0) + body
				}
			}
			g.add(capCase("C13", []string{"urihdrs 0", "urihdrs 1", "urihdrs 2", "urihdrs 4", "urihdrs 12"}, body, "urihdrs-caps", false))
		}
	}
}
