package main

// Generators: PRNG, SIP text builders (grammar directed), mutators, schedules.

import (
	"encoding/hex"
	"fmt"
	"strings"
)

// ---------------------------------------------------------------- PRNG

type Rng struct{ s uint64 }

// NewRng: the seed goes through the splitmix64 finalizer first — with a state that is merely seed*G + c the stream of
// seed k+1 is the stream of seed k shifted by one draw (every draw adds G), and neighbouring seeds explore the same cases.
func NewRng(seed uint64) *Rng {
	z := seed + 0x9E3779B97F4A7C15
	z = (z ^ (z >> 30)) * 0xBF58476D1CE4E5B9
	z = (z ^ (z >> 27)) * 0x94D049BB133111EB
	return &Rng{s: z ^ (z >> 31)}
}
func (r *Rng) U64() uint64 {
	r.s += 0x9E3779B97F4A7C15
	z := r.s
	z = (z ^ (z >> 30)) * 0xBF58476D1CE4E5B9
	z = (z ^ (z >> 27)) * 0x94D049BB133111EB
	return z ^ (z >> 31)
}
func (r *Rng) N(n int) int {
	if n <= 0 {
		return 0
	}
	return int(r.U64() % uint64(n))
}
func (r *Rng) P(pct int) bool { return r.N(100) < pct }
func (r *Rng) Pick(xs ...string) string {
	return xs[r.N(len(xs))]
}

func hx(s string) string {
	if len(s) == 0 {
		return "-"
	}
	return hex.EncodeToString([]byte(s))
}

// ---------------------------------------------------------------- lexical pieces

var eols = []string{"\r\n", "\r\n", "\r\n", "\r", "\n"}

func (r *Rng) EOL() string { return eols[r.N(len(eols))] }

// LWS: optional linear white space (possibly folded)
func (r *Rng) LWS0() string {
	switch r.N(10) {
	case 0, 1, 2, 3, 4:
		return ""
	case 5, 6:
		return " "
	case 7:
		return "\t"
	case 8:
		return r.EOL() + " "
	default:
		return " " + r.EOL() + "\t "
	}
}

// LWS1: at least one whitespace
func (r *Rng) LWS1() string {
	switch r.N(6) {
	case 0, 1, 2:
		return " "
	case 3:
		return "\t"
	case 4:
		return r.EOL() + " "
	default:
		return "  " + r.EOL() + "\t"
	}
}

const tokChars = "abcdefghijklmnopqrstuvwxyzABCDEFGHIJKLMNOPQRSTUVWXYZ0123456789-_.!~*'%+"

func (r *Rng) Token(min, max int) string {
	n := min + r.N(max-min+1)
	var sb strings.Builder
	for i := 0; i < n; i++ {
		sb.WriteByte(tokChars[r.N(len(tokChars))])
	}
	return sb.String()
}

func (r *Rng) Alnum(min, max int) string {
	n := min + r.N(max-min+1)
	var sb strings.Builder
	for i := 0; i < n; i++ {
		sb.WriteByte(tokChars[r.N(62)])
	}
	return sb.String()
}

func (r *Rng) ReCase(s string) string {
	b := []byte(s)
	m := r.N(4)
	for i := range b {
		c := b[i]
		isL := c >= 'a' && c <= 'z'
		isU := c >= 'A' && c <= 'Z'
		if !isL && !isU {
			continue
		}
		switch m {
		case 0: // keep
		case 1:
			if isL {
				b[i] = c - 32
			}
		case 2:
			if isU {
				b[i] = c + 32
			}
		default:
			if r.P(50) {
				b[i] = c ^ 0x20
			}
		}
	}
	return string(b)
}

func (r *Rng) Quoted() string {
	n := r.N(8)
	var sb strings.Builder
	sb.WriteByte('"')
	for i := 0; i < n; i++ {
		switch r.N(12) {
		case 0:
			sb.WriteString("\\\"")
		case 1:
			sb.WriteString("\\\\")
		case 2:
			sb.WriteString(" ")
		case 3:
			sb.WriteString(r.Pick(",", ";", "<", ">", "=", ":"))
		case 4:
			if r.P(40) { // bytes above 0x7f: UTF-8 sequences of 2, 3 and 4 bytes, and a stray high byte
				sb.WriteString(r.Pick("\xc3\xa9", "\xe2\x82\xac", "\xf0\x9d\x84\x9e", "\xff", "\x80"))
			} else {
				sb.WriteByte(tokChars[r.N(62)])
			}
		default:
			sb.WriteByte(tokChars[r.N(62)])
		}
	}
	sb.WriteByte('"')
	return sb.String()
}

// digit strings around the numeric boundaries named by C10
var numBounds = []string{
	"0", "1", "9", "10", "99", "255", "256", "999", "1000", "65535", "65536", "65537", "16777215", "16777216",
	"16777217", "99999999", "100000000", "999999999", "1000000000", "2147483647", "2147483648", "4294967295",
	"4294967296", "4294967297", "5000000000", "9999999999", "10000000000", "42949672950", "42949672960",
	"9223372036854775807", "9223372036854775808", "18446744073709551615", "18446744073709551616",
	"18446744073709551617", "18446744073709551619", "36893488147419103232", "184467440737095516150",
	"184467440737095516160", "1844674407370955161600", "99999999999999999999", "100000000000000000000",
	"340282366920938463463374607431768211456",
}

func (r *Rng) Digits() string {
	switch r.N(10) {
	case 0, 1, 2, 3:
		s := numBounds[r.N(len(numBounds))]
		if r.P(25) {
			s = strings.Repeat("0", 1+r.N(25)) + s
		}
		return s
	case 4, 5:
		return fmt.Sprint(r.N(100000))
	case 6:
		return fmt.Sprint(r.U64())
	default:
		n := 1 + r.N(40)
		var sb strings.Builder
		for i := 0; i < n; i++ {
			sb.WriteByte(byte('0' + r.N(10)))
		}
		return sb.String()
	}
}

// ---------------------------------------------------------------- URIs

func (r *Rng) Host() string {
	switch r.N(6) {
	case 0:
		return fmt.Sprintf("%d.%d.%d.%d", r.N(256), r.N(256), r.N(256), r.N(256))
	case 1:
		return "[" + r.Pick("::1", "fe80::1", "2001:db8::ff00:42:8329", "1:2:3:4:5:6:7:8") + "]"
	default:
		return r.Alnum(1, 8) + r.Pick("", ".com", ".example.org", ".a.b")
	}
}

type URIParts struct {
	Scheme, User, Pass, Host, Port, Params, Headers string
	HasUser, HasPass, HasPort, HasParams, HasHeaders bool
}

func (u *URIParts) String() string {
	s := u.Scheme
	if u.HasUser {
		s += u.User
		if u.HasPass {
			s += ":" + u.Pass
		}
		s += "@"
	}
	s += u.Host
	if u.HasPort {
		s += ":" + u.Port
	}
	if u.HasParams {
		s += ";" + u.Params
	}
	if u.HasHeaders {
		s += "?" + u.Headers
	}
	return s
}

var uriParamNames = []string{"transport", "user", "method", "ttl", "maddr", "lr"}

// KnownParamName: a known URI parameter name in any letter case, or - one time in five - a NEAR miss of one: the known
// name extended by a suffix, a proper prefix of it, or the name with one letter changed (all of them ordinary "other"
// parameters for a correct classification)
func (r *Rng) KnownParamName() string {
	nm := uriParamNames[r.N(len(uriParamNames))]
	if r.P(20) {
		switch r.N(3) {
		case 0:
			nm = nm + r.Pick("-x", "s", "2", "-context", "_", ".")
		case 1:
			if len(nm) > 1 {
				nm = nm[:1+r.N(len(nm)-1)]
			}
		default:
			b := []byte(nm)
			b[r.N(len(b))] = "xz1-"[r.N(4)]
			nm = string(b)
		}
	}
	return r.ReCase(nm)
}

func (r *Rng) ParamList(sep string, maxItems int) string {
	n := r.N(maxItems + 1)
	var items []string
	for i := 0; i < n; i++ {
		var name string
		if r.P(40) {
			name = r.KnownParamName()
		} else {
			name = r.Alnum(1, 6)
		}
		switch r.N(4) {
		case 0:
			items = append(items, name)
		default:
			items = append(items, name+"="+r.Alnum(1, 6))
		}
	}
	return strings.Join(items, sep)
}

func (r *Rng) URIParts() *URIParts {
	u := &URIParts{}
	u.Scheme = r.ReCase(r.Pick("sip:", "sip:", "sip:", "sips:"))
	if r.P(70) {
		u.HasUser = true
		u.User = r.Alnum(1, 8)
		if r.P(15) {
			u.User += r.Pick(";x=y", "?q", ";a", "%40")
		}
		if r.P(25) {
			u.HasPass = true
			u.Pass = r.Alnum(1, 6)
		}
	}
	u.Host = r.Host()
	if r.P(35) {
		u.HasPort = true
		if r.P(80) {
			u.Port = fmt.Sprint(r.N(65536))
		} else {
			u.Port = r.Digits()
		}
	}
	if r.P(45) {
		u.HasParams = true
		u.Params = r.ParamList(";", 4)
	}
	if r.P(25) {
		u.HasHeaders = true
		u.Headers = r.ParamList("&", 3)
	}
	return u
}

func (r *Rng) URI() string { return r.URIParts().String() }

// ---------------------------------------------------------------- name-addr values

// NAExp is what the property says must be reported for a generated value.
type NAExp struct {
	Text       string // complete value text (trimmed)
	Name       string // display name as written (trailing whitespace allowed by the implementation)
	URI        string
	Params     string // "" if none
	Tag        string
	HasTag     bool
	Expires    string // digit string or "" if absent
	Q          string
	LR         bool
	Star       bool
	ParamsOK   bool // all special params well formed (so expires/q are comparable)
	NParams    int
}

// NameAddr generates one well-formed name-addr value (no leading/trailing LWS).
// lws=false: no optional whitespace at all.
func (r *Rng) NameAddr(lws bool, allowStar bool) *NAExp {
	e := &NAExp{ParamsOK: true}
	ws0 := func() string {
		if lws {
			return r.LWS0()
		}
		return ""
	}
	var sb strings.Builder
	if allowStar && r.P(3) {
		e.Star = true
		e.Text = "*"
		e.URI = "*"
		return e
	}
	bare := false
	switch r.N(5) {
	case 0: // bare uri
		bare = true
		u := r.URIParts()
		u.HasParams = false // parameters of a bare URI are header parameters: generated below
		u.HasHeaders = false
		if u.HasUser {
			u.User = r.Alnum(1, 8)
		}
		e.URI = u.String()
		sb.WriteString(e.URI)
	case 1: // <uri>
		e.URI = r.URI()
		sb.WriteString("<" + e.URI + ">")
	case 2: // token display name
		n := 1 + r.N(3)
		var toks []string
		for i := 0; i < n; i++ {
			toks = append(toks, r.Alnum(1, 6))
		}
		nm := strings.Join(toks, " ")
		e.Name = nm
		e.URI = r.URI()
		sp := " "
		if lws {
			sp = r.LWS1()
		}
		sb.WriteString(nm + sp + "<" + e.URI + ">")
	default: // quoted display name
		q := r.Quoted()
		e.Name = q
		e.URI = r.URI()
		sb.WriteString(q + ws0() + "<" + e.URI + ">")
	}
	_ = bare
	// header parameters
	np := r.N(5)
	if r.P(30) {
		np = 0
	}
	var specials = []string{"tag", "expires", "q", "lr"}
	used := map[string]bool{}
	pstart := -1
	for i := 0; i < np; i++ {
		sb.WriteString(ws0() + ";" + ws0())
		if pstart < 0 {
			pstart = sb.Len()
		}
		var name, val string
		hasVal := true
		if r.P(55) {
			sp := specials[r.N(len(specials))]
			if used[sp] {
				sp = "x" + r.Alnum(1, 4)
			}
			used[sp] = true
			name = r.ReCase(sp)
			if sp != "lr" && !strings.HasPrefix(sp, "x") && r.P(12) {
				// a special parameter without value: nothing to report for it
				hasVal = false
				sp = "novalue"
			}
			switch sp {
			case "novalue":
			case "tag":
				val = r.Token(1, 12)
				e.Tag, e.HasTag = val, true
			case "expires":
				if r.P(70) {
					val = fmt.Sprint(r.N(100000))
				} else {
					val = r.Digits()
				}
				e.Expires = val
			case "q":
				val = r.Pick("0", "1", "0.5", "0.25", "0.125", "1.0", "1.000", "0.999", ".5", "0.", "1.")
				if r.P(15) {
					val = r.Pick("2", "1.1", "0.1234", "1.001", r.Digits(), "0."+r.Digits())
				}
				e.Q = val
			case "lr":
				e.LR = true
				if r.P(75) {
					hasVal = false
				} else {
					val = r.Alnum(1, 3)
				}
			default:
				val = r.Token(1, 6)
			}
		} else {
			name = "x" + r.Alnum(0, 5)
			switch r.N(4) {
			case 0:
				hasVal = false
			case 1:
				val = r.Quoted()
			default:
				val = r.Token(1, 8)
			}
		}
		sb.WriteString(name)
		if hasVal {
			sb.WriteString(ws0() + "=" + ws0() + val)
		}
		e.NParams++
	}
	e.Text = sb.String()
	if pstart >= 0 {
		e.Params = e.Text[pstart:]
	}
	return e
}

// ---------------------------------------------------------------- messages

type HdrSpec struct {
	Name  string // as written
	Type  int    // expected HdrT
	Value string // as written, trimmed (may contain folds)
	Raw   string // full header line including EOL
}

type MsgSpec struct {
	FLine   string
	Request bool
	Method  string
	Hdrs    []HdrSpec
	Blank   string
	Body    string
	CLen    int // declared content-length, -1 if none
	Text    string
	HdrEnd  int // offset after the blank line
	Contacts []*NAExp
	sane     bool
}

var hdrNames = map[int][]string{
	1: {"From", "f"}, 2: {"To", "t"}, 3: {"Call-ID", "i"}, 4: {"CSeq"}, 5: {"Via", "v"}, 6: {"Max-Forwards"},
	7: {"Content-Length", "l"}, 8: {"Contact", "m"}, 9: {"Expires"}, 10: {"User-Agent"}, 11: {"Record-Route"},
	12: {"Route"}, 13: {"P-Asserted-Identity"},
}

var otherNames = []string{"Subject", "X-Foo", "Allow", "Supported", "Timestamp", "Accept", "Date", "Server", "k", "s", "Content-Type", "c"}

func (r *Rng) HdrName(t int) string {
	if t == 14 {
		if r.P(30) {
			return "X" + r.Alnum(1, 11) // (a random 1-letter name could be a compact form)
		}
		if r.P(12) { // every character of the RFC 3261 token set may occur in a header name (also the ones the parameter
			// parser does not allow, the back-quote among them); a name made of one non-letter byte is legal too
			const nameChars = "abcXYZ019-.!%*_+`'~"
			n := 1 + r.N(6)
			b := make([]byte, n)
			for i := range b {
				b[i] = nameChars[r.N(len(nameChars))]
			}
			if n == 1 && (b[0]|0x20 >= 'a' && b[0]|0x20 <= 'z') {
				b[0] = "0123456789-.!%*_+`'~"[r.N(20)] // not a letter: a letter could be a compact form
			}
			return string(b)
		}
		return r.ReCase(otherNames[r.N(len(otherNames))])
	}
	ns := hdrNames[t]
	return r.ReCase(ns[r.N(len(ns))])
}

var methods = []string{"INVITE", "ACK", "BYE", "CANCEL", "REGISTER", "PRACK", "OPTIONS", "UPDATE", "SUBSCRIBE", "NOTIFY", "INFO", "REFER", "PUBLISH", "MESSAGE"}

type MsgOpts struct {
	LWS      bool // use optional whitespace / folds
	MixedEOL bool
	Body     int // body length, -1 random
	CLen     int // -2: matching body, -1: none, >=0 literal
	Reply    int // 0 request, 1 reply, -1 random
	NoOther  bool
	Sane     bool // no out-of-range numbers (the header block must be accepted)
}

func (r *Rng) genValue(t int, lws bool, method string, ms *MsgSpec) string {
	sane := ms != nil && ms.sane
	switch t {
	case 1, 2:
		return r.NameAddr(lws, false).Text
	case 3:
		if r.P(10) { // identifiers built from the blocks the class function tells apart
			return sigShape(r)
		}
		if r.P(12) { // hex / decimal blocks directly before and after an address (the class function cuts the address out)
			ip := r.Pick("10.0.0.1", "192.168.1.255", "1.2.3.4", "::1", "fe80::1:2", "[2001:db8::1]")
			return r.RandBytes("0123456789abcdefABCDEF", 0, 9) + r.Pick("", "-", "@", ".", ":") + ip + r.Pick("", "-", "@", ".") + r.RandBytes("0123456789abcdef-", 0, 12)
		}
		if r.P(2) { // very long identifiers (the length class saturates)
			return strings.Repeat(r.Pick("g", "0f", "x-", "9."), 400+r.N(700)) + r.Pick("", "@10.0.0.1")
		}
		return r.Token(4, 20) + r.Pick("", "@"+r.Host())
	case 4:
		d := fmt.Sprint(r.N(1000000))
		if r.P(10) && !sane {
			d = r.Digits()
		}
		sp := " "
		if lws {
			sp = r.LWS1()
		}
		return d + sp + method
	case 5:
		return "SIP/2.0/UDP " + r.Host() + r.Pick("", ":5060") + ";branch=" + r.Pick("z9hG4bK", "") + r.Token(4, 16) + r.Pick("", ";rport", ";received=1.2.3.4")
	case 6:
		if r.P(8) {
			return "" // empty value
		}
		return fmt.Sprint(r.N(100))
	case 8, 11, 12, 13:
		n := 1 + r.N(3)
		var vs []string
		for i := 0; i < n; i++ {
			e := r.NameAddr(lws, false)
			if t == 8 && ms != nil {
				ms.Contacts = append(ms.Contacts, e)
			}
			vs = append(vs, e.Text)
		}
		sep := ","
		if lws {
			sep = r.LWS0() + "," + r.LWS0()
		}
		return strings.Join(vs, sep)
	case 9:
		if r.P(25) {
			// legal but large (between the Content-Length limit and 2^32)
			return r.Pick("31536000", "86400000", "16777217", "4294967295", "999999999", "1000000000", "2147483648")
		}
		if r.P(85) || sane {
			return fmt.Sprint(r.N(100000))
		}
		return r.Digits()
	case 10:
		if r.P(12) {
			return "" // empty value
		}
		return r.Alnum(1, 8) + r.Pick("", " "+r.Alnum(1, 5), "/1.0 (x; y)")
	default:
		n := r.N(4)
		var toks []string
		for i := 0; i < n; i++ {
			toks = append(toks, r.Token(1, 8))
		}
		if lws {
			var sb strings.Builder
			for i, t := range toks {
				if i > 0 {
					sb.WriteString(r.LWS1())
				}
				sb.WriteString(t)
			}
			return sb.String()
		}
		return strings.Join(toks, " ")
	}
}

// Msg builds a well-formed SIP message.
func (r *Rng) Msg(o MsgOpts) *MsgSpec {
	ms := &MsgSpec{CLen: -1, sane: o.Sane}
	eol := func() string {
		if o.MixedEOL {
			return r.EOL()
		}
		return "\r\n"
	}
	reply := o.Reply == 1 || (o.Reply == -1 && r.P(30))
	ms.Method = methods[r.N(len(methods))]
	if r.P(5) {
		ms.Method = r.Alnum(1, 9)
	}
	if reply {
		ms.FLine = r.ReCase("SIP/2.0") + " " + fmt.Sprintf("%03d", r.N(1000)) + " " + r.Pick("OK", "", "Not Found", "Ringing  now") + eol()
	} else {
		ms.Request = true
		ms.FLine = ms.Method + " " + r.URI() + " SIP/2.0" + eol()
	}
	// header order
	var types []int
	base := []int{5, 6, 2, 1, 3, 4}
	for _, t := range base {
		if r.P(92) {
			types = append(types, t)
		}
	}
	extra := r.N(6)
	for i := 0; i < extra; i++ {
		t := []int{8, 8, 9, 10, 11, 12, 13, 14, 14, 14, 5, 8, 13, 1, 2, 3, 4, 7}[r.N(18)]
		if o.NoOther && t == 14 {
			continue
		}
		types = append(types, t)
	}
	// shuffle a bit
	for i := len(types) - 1; i > 0; i-- {
		if r.P(40) {
			j := r.N(i + 1)
			types[i], types[j] = types[j], types[i]
		}
	}
	bodyLen := o.Body
	if bodyLen < 0 {
		bodyLen = []int{0, 0, 1, 5, 20, 100}[r.N(6)]
	}
	body := r.Alnum(bodyLen, bodyLen)
	clen := o.CLen
	if clen == -2 {
		if r.P(75) {
			clen = bodyLen
		} else {
			clen = -1
		}
	}
	if clen >= 0 {
		pos := r.N(len(types) + 1)
		types = append(types[:pos], append([]int{7}, types[pos:]...)...)
	}
	clenDone := false
	for _, t := range types {
		var h HdrSpec
		h.Type = t
		h.Name = r.HdrName(t)
		if t == 7 {
			if clen >= 0 && !clenDone {
				h.Value = fmt.Sprint(clen)
				ms.CLen = clen
				clenDone = true
			} else {
				h.Value = fmt.Sprint(r.N(50))
				if ms.CLen < 0 {
					ms.CLen = 0
					fmt.Sscan(h.Value, &ms.CLen)
				}
			}
		} else {
			h.Value = r.genValue(t, o.LWS, ms.Method, ms)
		}
		pre, post := " ", ""
		if o.LWS {
			pre, post = r.LWS0(), r.LWS0()
			if strings.HasSuffix(post, "\t ") || strings.Contains(post, "\r") || strings.Contains(post, "\n") {
				// trailing fold before EOL is legal but keep it simple: only SP/HT after the value
				post = " "
			}
		}
		bc := ""
		if o.LWS && r.P(15) {
			bc = r.Pick(" ", "\t", "  ")
		}
		h.Raw = h.Name + bc + ":" + pre + h.Value + post + eol()
		ms.Hdrs = append(ms.Hdrs, h)
	}
	ms.Blank = eol()
	lastRaw := ms.FLine
	if len(ms.Hdrs) > 0 {
		lastRaw = ms.Hdrs[len(ms.Hdrs)-1].Raw
	}
	if strings.HasSuffix(lastRaw, "\r") && ms.Blank == "\n" {
		ms.Blank = "\r\n" // CR then LF would read as one CRLF
	}
	if ms.Blank == "\r" && len(body) == 0 {
		ms.Blank = "\r\n" // a lone CR at the very end needs one byte of look-ahead
	}
	ms.Body = body
	var sb strings.Builder
	sb.WriteString(ms.FLine)
	for _, h := range ms.Hdrs {
		sb.WriteString(h.Raw)
	}
	sb.WriteString(ms.Blank)
	ms.HdrEnd = sb.Len()
	sb.WriteString(body)
	ms.Text = sb.String()
	return ms
}

// sigShape: identifiers made of the blocks the signature's class function distinguishes — hex blocks of 1..16 digits
// (lower / upper case), decimal blocks, base64 text with '+' '/' and '=' padding in last / second-last position or
// elsewhere, letters outside the hex range (g..z, G..Z), joined by the separators it counts.
func sigShape(r *Rng) string {
	var sb strings.Builder
	n := 1 + r.N(5)
	for i := 0; i < n; i++ {
		if i > 0 {
			sb.WriteString(r.Pick("-", "-", ".", "@", ":", "_", "+", "/", "=", "*", "|", ""))
		}
		switch r.N(6) {
		case 0:
			sb.WriteString(r.RandBytes("0123456789abcdef", 1, 16))
		case 1:
			sb.WriteString(r.RandBytes("0123456789ABCDEF", 1, 16))
		case 2:
			sb.WriteString(r.RandBytes("0123456789", 1, 12))
		case 3:
			sb.WriteString(r.RandBytes("ABCDEFGHIJKLMNOPQRSTUVWXYZabcdefghijklmnopqrstuvwxyz0123456789+/", 2, 24) + r.Pick("", "=", "==", "=x"))
		case 4:
			sb.WriteString(r.RandBytes("ghijklmnopqrstuvwxyzGHIJKLMNOPQRSTUVWXYZ", 1, 6))
		default:
			sb.WriteString(r.RandBytes("0123456789abcdefABCDEFeEfFgG", 7, 9)) // around the "8 consecutive hex digits" threshold
		}
	}
	return sb.String()
}

// ---------------------------------------------------------------- mutation

const mutChars = " \t\r\n\"\\;,=<>:@*?&a1"

func (r *Rng) Mutate(s string) string {
	b := []byte(s)
	n := 1 + r.N(3)
	for k := 0; k < n && len(b) > 0; k++ {
		p := r.N(len(b))
		switch r.N(7) {
		case 0:
			b[p] = byte(r.N(256))
		case 1:
			b[p] = mutChars[r.N(len(mutChars))]
		case 2:
			b = append(b[:p], b[p+1:]...)
		case 3:
			c := mutChars[r.N(len(mutChars))]
			b = append(b[:p], append([]byte{c}, b[p:]...)...)
		case 4:
			b = b[:p]
		case 5:
			if p+1 < len(b) {
				b[p], b[p+1] = b[p+1], b[p]
			}
		default:
			q := r.N(len(b))
			if p > q {
				p, q = q, p
			}
			b = append(b[:p], b[q:]...)
		}
	}
	return string(b)
}

func (r *Rng) RandBytes(alpha string, min, max int) string {
	n := min + r.N(max-min+1)
	var sb strings.Builder
	for i := 0; i < n; i++ {
		if alpha == "" {
			sb.WriteByte(byte(r.N(256)))
		} else {
			sb.WriteByte(alpha[r.N(len(alpha))])
		}
	}
	return sb.String()
}

// ---------------------------------------------------------------- schedules

// interesting cut positions: inside CRLF, after backslash, before folds, inside numbers...
func interesting(s string) []int {
	var ps []int
	for i := 0; i < len(s); i++ {
		c := s[i]
		switch c {
		case '\r', '\n', '\\', '"', ' ', '\t', ';', ',', '=', ':', '<', '>':
			ps = append(ps, i, i+1)
		}
	}
	return ps
}

// Cuts returns an increasing list of prefix lengths ending with total.
func (r *Rng) Cuts(s string, total int) []int {
	switch r.N(6) {
	case 0: // one-shot
		return []int{total}
	case 1: // single random cut
		return uniqSorted([]int{r.N(total + 1), total})
	case 2: // single interesting cut
		ps := interesting(s)
		if len(ps) == 0 {
			return []int{total}
		}
		return uniqSorted([]int{ps[r.N(len(ps))], total})
	case 3: // several random cuts
		k := 2 + r.N(5)
		var cs []int
		for i := 0; i < k; i++ {
			if r.P(50) {
				cs = append(cs, r.N(total+1))
			} else {
				ps := interesting(s)
				if len(ps) > 0 {
					cs = append(cs, ps[r.N(len(ps))])
				}
			}
		}
		cs = append(cs, total)
		return uniqSorted(cs)
	case 4: // byte by byte over a window
		start := r.N(total + 1)
		var cs []int
		for i := start; i <= total && i < start+40; i++ {
			cs = append(cs, i)
		}
		cs = append(cs, total)
		return uniqSorted(cs)
	default: // all one byte steps (short inputs) else 2 cuts
		if total <= 120 {
			var cs []int
			for i := 1; i <= total; i++ {
				cs = append(cs, i)
			}
			return cs
		}
		return uniqSorted([]int{r.N(total + 1), r.N(total + 1), total})
	}
}

func uniqSorted(xs []int) []int {
	// insertion sort + dedupe, drop values <0
	for i := 1; i < len(xs); i++ {
		for j := i; j > 0 && xs[j] < xs[j-1]; j-- {
			xs[j], xs[j-1] = xs[j-1], xs[j]
		}
	}
	var out []int
	for i, x := range xs {
		if x < 0 {
			continue
		}
		if i > 0 && len(out) > 0 && out[len(out)-1] == x {
			continue
		}
		out = append(out, x)
	}
	return out
}
