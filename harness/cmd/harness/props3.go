package main

import (
	"regexp"
	"bytes"
	"fmt"
	"strings"

	"github.com/intuitivelabs/sipsp"
)

// ---------------------------------------------------------------- C07

type hline struct {
	name, val string
	typ       int
	nameOffs  int
	valOffs   int
}

func (g *Gen) genC07() {
	g.exhOneShot("C07", "hl")
	// whole messages with a values object: every stored header's name / type / value against the text as written
	// (for the typed kinds the value comes from the value parser)
	{
		r := g.r
		nm := g.budget(600, 20000)
		for i := 0; i < nm; i++ {
			ms := r.Msg(MsgOpts{LWS: r.P(60), MixedEOL: r.P(35), Body: 0, CLen: -1, Reply: -1, Sane: true})
			text := ms.Text
			hcap := len(ms.Hdrs) + r.N(3)
			ccap := r.N(6)
			cuts := r.Cuts(text, len(text))
			// skip-body mode: a random extra Content-Length must not make the framing wait for a body
			sess := parseSess(fmt.Sprintf("msg %d %d", hcap, ccap), text, 0, cuts, 1, false, "O")
			hdrs := ms.Hdrs
			g.add(Case{Prop: "C07", Desc: "msg-typed-values", Lines: []string{sess}, Check: func(out []string) string {
				return protect(func() string {
					m := newMsg(hcap, ccap)
					bb := []byte(text)
					var err sipsp.ErrorHdr
					off := 0
					for _, c := range cuts {
						off, err = sipsp.ParseSIPMsg(bb[:c], off, m, 1)
						if err != sipsp.ErrHdrMoreBytes {
							break
						}
					}
					if err != 0 {
						return fmt.Sprintf("well-formed message rejected: %v at %d", err, off)
					}
					if m.HL.N != len(hdrs) {
						return fmt.Sprintf("%d headers reported, the message has %d", m.HL.N, len(hdrs))
					}
					for k := range hdrs {
						h := &m.HL.Hdrs[k]
						if fget(bb, h.Name) != hdrs[k].Name || int(h.Type) != hdrs[k].Type {
							return fmt.Sprintf("header #%d: name %q type %d, expected %q type %d", k, fget(bb, h.Name), h.Type, hdrs[k].Name, hdrs[k].Type)
						}
						if fget(bb, h.Val) != hdrs[k].Value {
							return fmt.Sprintf("header #%d (%q): value %q, as written %q", k, hdrs[k].Name, fget(bb, h.Val), hdrs[k].Value)
						}
					}
					return ""
				})
			}})
		}
	}
	r := g.r
	n := g.budget(2500, 80000)
	for i := 0; i < n; i++ {
		nh := 1 + r.N(8)
		if r.P(10) {
			nh = 1 + r.N(60)
		}
		var sb strings.Builder
		var hs []hline
		for k := 0; k < nh; k++ {
			var h hline
			switch r.N(4) {
			case 0:
				t := 1 + r.N(13)
				h.name = r.HdrName(t)
			case 1:
				h.name = r.Alnum(1, 14)
				if r.P(40) {
					h.name = r.HdrName(14) // incl. names over the whole RFC token set and one-byte non-letter names
				}
			case 2:
				h.name = r.ReCase(otherNames[r.N(len(otherNames))])
			default:
				// near known names
				h.name = r.ReCase(hdrNames[1+r.N(13)][0]) + r.Pick("", "x", "-", "s", r.Alnum(4, 4))
			}
			h.typ = refHdrType(h.name)
			ntok := r.N(5)
			h.nameOffs = sb.Len()
			sb.WriteString(h.name)
			sb.WriteString(r.Pick("", "", " ", "\t", "  "))
			sb.WriteString(":")
			sb.WriteString(r.LWS0())
			h.valOffs = sb.Len()
			for t := 0; t < ntok; t++ {
				if t > 0 {
					sb.WriteString(r.LWS1())
				}
				sb.WriteString(r.Token(1, 8) + r.Pick("", ":", ";", ",", "=", "<>", "\""))
			}
			vend := sb.Len()
			h.val = sb.String()[h.valOffs:vend]
			if ntok == 0 {
				h.valOffs = 0
			}
			sb.WriteString(r.Pick("", "", " ", "\t"))
			sb.WriteString(r.EOL())
			hs = append(hs, h)
		}
		blank := r.EOL()
		if strings.HasSuffix(sb.String(), "\r") && blank == "\n" {
			blank = "\r\n" // CR then LF would read as one CRLF
		}
		tailS := r.Pick("", "X", "body", "\r\n")
		if blank == "\r" && (tailS == "" || tailS[0] == '\n' || tailS[0] == '\r') {
			blank = "\r\n"
		}
		sb.WriteString(blank)
		blkLen := sb.Len()
		sb.WriteString(tailS)
		text := sb.String()
		hcap := r.N(nh + 3)
		cuts := r.Cuts(text, len(text))
		line := parseSess(fmt.Sprintf("headers %d 0 0", hcap), text, 0, cuts, 0, false, "O")
		g.add(Case{Prop: "C07", Desc: "hblock", Lines: []string{line}, Check: func(out []string) string {
			return protect(func() string {
				var hl sipsp.HdrLst
				hl.Hdrs = make([]sipsp.Hdr, hcap)
				bb := []byte(text)
				var o int
				var err sipsp.ErrorHdr
				off := 0
				for _, c := range cuts {
					o, err = sipsp.ParseHeaders(bb[:c], off, &hl, nil)
					off = o
					if err != sipsp.ErrHdrMoreBytes {
						break
					}
				}
				if err == sipsp.ErrHdrMoreBytes && blkLen == len(text) {
					// a lone LF/CR blank line at the very end of the buffer may need one more byte
					return ""
				}
				if err != 0 || o != blkLen {
					return fmt.Sprintf("well-formed block of %d headers: got (%d,%v), expected (%d,ok)", len(hs), o, err, blkLen)
				}
				if hl.N != len(hs) {
					return fmt.Sprintf("header count %d, expected %d (capacity %d)", hl.N, len(hs), hcap)
				}
				var flags sipsp.HdrFlags
				first := map[int]int{}
				for k, h := range hs {
					flags |= 1 << uint(h.typ)
					if _, ok := first[h.typ]; !ok {
						first[h.typ] = k
					}
					if k < hcap {
						got := &hl.Hdrs[k]
						if fget(bb, got.Name) != h.name || int(got.Name.Offs) != h.nameOffs {
							return fmt.Sprintf("header #%d name %q at %d, expected %q at %d", k, fget(bb, got.Name), got.Name.Offs, h.name, h.nameOffs)
						}
						if fget(bb, got.Val) != h.val || (h.val != "" && int(got.Val.Offs) != h.valOffs) {
							return fmt.Sprintf("header #%d (%q) value %q, expected %q", k, h.name, fget(bb, got.Val), h.val)
						}
						if int(got.Type) != h.typ {
							return fmt.Sprintf("header #%d (%q) type %d, expected %d", k, h.name, got.Type, h.typ)
						}
					}
				}
				if hl.PFlags != flags {
					return fmt.Sprintf("type flags %#x, expected %#x", hl.PFlags, flags)
				}
				for t := 1; t <= 13; t++ {
					gh := hl.GetHdr(sipsp.HdrT(t))
					k, ok := first[t]
					if !ok {
						if gh != nil && !gh.Missing() {
							return fmt.Sprintf("GetHdr(%d) returns a header although none of that type is present", t)
						}
						continue
					}
					if gh == nil || gh.Missing() || int(gh.Name.Offs) != hs[k].nameOffs || fget(bb, gh.Val) != hs[k].val {
						return fmt.Sprintf("GetHdr(%d) is not the first header of that type (#%d %q: value %q)", t, k, hs[k].name, hs[k].val)
					}
				}
				return ""
			})
		}})
	}
}

// ---------------------------------------------------------------- C08

func (g *Gen) genC08() {
	g.exhOneShot("C08", "fl")
	r := g.r
	n := g.budget(3000, 100000)
	pad := "X-Pad: 1234567890\r\n\r\n"
	tok := func() string {
		const a = "abcdefghijklmnopqrstuvwxyzABCDEFGHIJKLMNOPQRSTUVWXYZ0123456789-_.!~*'%+:@;/?&=$,[]()<>\"\\"
		k := 1 + r.N(12)
		var sb strings.Builder
		for i := 0; i < k; i++ {
			sb.WriteByte(a[r.N(len(a))])
		}
		return sb.String()
	}
	for i := 0; i < n; i++ {
		eol := r.EOL()
		var line string
		var expOK bool
		var isReq bool
		var m, u, v, reason string
		code := 0
		switch r.N(10) {
		case 0, 1, 2: // request
			isReq, expOK = true, true
			switch r.N(4) {
			case 0:
				m = methods[r.N(len(methods))]
			case 1:
				m = r.ReCase(methods[r.N(len(methods))])
			case 2:
				m = methods[r.N(len(methods))] + r.Pick("X", "1", "S")
			default:
				m = tok()
			}
			u, v = tok(), tok()
			if r.P(60) {
				u, v = r.URI(), "SIP/2.0"
			}
			if strings.HasPrefix(asciiLower(m+" "), "sip/2.0 ") {
				m = "M" + m
			}
			line = m + " " + u + " " + v + eol
		case 3, 4, 5: // reply
			expOK = true
			v = r.ReCase("SIP/2.0")
			code = r.N(1000)
			if r.P(4) {
				code = 0 // "000" is a status line like any other
			}
			reason = r.Pick("OK", "", "Not Found", " leading", "trailing ", "a\tb", r.RandBytes("abc XYZ.;,\t\"", 0, 20))
			line = fmt.Sprintf("%s %03d %s%s", v, code, reason, eol)
		default: // near misses
			base := []string{"INVITE", "sip:a@b", "SIP/2.0"}
			rep := []string{"SIP/2.0", "200", "OK"}
			if r.P(50) {
				// same shapes with arbitrary tokens
				base = []string{tok(), tok(), tok()}
				if strings.HasPrefix(asciiLower(base[0]+" "), "sip/2.0 ") {
					base[0] = "M" + base[0]
				}
			}
			switch r.N(18) {
			case 14: // a token missing between two separators
				line = base[0] + "  " + base[2] + eol
			case 15:
				line = base[0] + " " + base[1] + " " + eol
			case 16:
				line = " " + base[1] + " " + base[2] + eol
			case 17:
				line = base[0] + r.Pick(" \t", "\t ", "\t\t") + base[2] + eol
			case 12, 13: // status code of three bytes one of which is not a digit (bytes next to '0'..'9', letters)
				d := []byte(fmt.Sprintf("%03d", r.N(1000)))
				d[r.N(3)] = "/:aAzZ;.-+ "[r.N(11)]
				line = rep[0] + " " + string(d) + " " + rep[2] + eol
			case 0:
				line = base[0] + "  " + base[1] + " " + base[2] + eol
			case 1:
				line = base[0] + " " + base[1] + "  " + base[2] + eol
			case 2:
				line = base[0] + "\t" + base[1] + " " + base[2] + eol
			case 3:
				line = base[0] + " " + base[1] + "\t" + base[2] + eol
			case 4:
				line = base[0] + " " + base[1] + eol
			case 5:
				line = base[0] + " " + base[1] + " " + base[2] + " x" + eol
			case 6:
				line = " " + base[0] + " " + base[1] + " " + base[2] + eol
			case 7:
				line = rep[0] + "  " + rep[1] + " " + rep[2] + eol
			case 8:
				line = rep[0] + " " + r.Pick("20", "2000", "2x0", "20 ", "-20", "+20", "2 0", " 200", "20\t") + " " + rep[2] + eol
			case 9:
				line = rep[0] + " " + rep[1] + eol
			case 10:
				line = rep[0] + " " + rep[1] + r.Pick("\t", "x", "-") + rep[2] + eol
			default:
				line = base[0] + " " + base[1] + " " + base[2] + " " + eol
			}
		}
		text := line + pad
		// the line may start anywhere in the buffer (e.g. behind an earlier message) and arrive in pieces
		start := 0
		if r.P(35) {
			junk := r.Pick("OPTIONS sip:a@b SIP/2.0\r\nl: 0\r\n\r\n", "\r\n", "xxxxxxxxxxxxxxxx", r.RandBytes("", 1, 40))
			text = junk + text
			start = len(junk)
		}
		line0 := line
		line = text[:start+len(line0)]
		cuts := r.Cuts(text[start:], len(text)-start)
		for k := range cuts {
			cuts[k] += start
		}
		sess := parseSess("fline", text, start, cuts, 0, false, "O")
		g.add(Case{Prop: "C08", Desc: map[bool]string{true: "grammar", false: "near-miss"}[expOK], Lines: []string{sess}, Check: func(out []string) string {
			return protect(func() string {
				var fl sipsp.PFLine
				bb := []byte(text)
				var o int
				var err sipsp.ErrorHdr
				off := start
				for _, c := range cuts {
					o, err = sipsp.ParseFLine(bb[:c], off, &fl)
					if err != sipsp.ErrHdrMoreBytes {
						break
					}
					off = o
				}
				line := line0
				if !expOK {
					if err == 0 {
						return fmt.Sprintf("line %q violates the single-space grammar but was accepted (method %q uri %q version %q status %q reason %q)", line, fget(bb, fl.Method), fget(bb, fl.URI), fget(bb, fl.Version), fget(bb, fl.StatusCode), fget(bb, fl.Reason))
					}
					return ""
				}
				if err != 0 || o != start+len(line) {
					return fmt.Sprintf("line %q at offset %d, cuts %v: got (%d,%v), expected (%d,ok)", line, start, cuts, o, err, start+len(line))
				}
				if isReq {
					if !fl.Request() || fget(bb, fl.Method) != m || fget(bb, fl.URI) != u || fget(bb, fl.Version) != v {
						return fmt.Sprintf("request line %q split as %q %q %q (request=%v)", line, fget(bb, fl.Method), fget(bb, fl.URI), fget(bb, fl.Version), fl.Request())
					}
					if int(fl.MethodNo) != refMethodNo(m) {
						return fmt.Sprintf("method %q got number %d, expected %d", m, fl.MethodNo, refMethodNo(m))
					}
				} else {
					if fl.Request() || int(fl.Status) != code || fget(bb, fl.Version) != v || fget(bb, fl.Reason) != reason || fget(bb, fl.StatusCode) != fmt.Sprintf("%03d", code) {
						return fmt.Sprintf("status line %q: status %d version %q reason %q", line, fl.Status, fget(bb, fl.Version), fget(bb, fl.Reason))
					}
				}
				return ""
			})
		}})
	}
}

// ---------------------------------------------------------------- C09

func satExpires(d string) uint32 {
	v := bigOf(d)
	if v.Cmp(two32) >= 0 {
		return 0xffffffff
	}
	return uint32(v.Uint64())
}

func checkNA(bb []byte, e *NAExp, c *sipsp.PFromBody, h int) string {
	if e.Star {
		if !c.Star || fget(bb, c.URI) != "*" {
			return "'*' value not reported as star"
		}
		return ""
	}
	if strings.TrimRight(fget(bb, c.Name), " \t\r\n") != e.Name {
		return fmt.Sprintf("display name %q, expected %q", fget(bb, c.Name), e.Name)
	}
	if fget(bb, c.URI) != e.URI {
		return fmt.Sprintf("URI %q, expected %q", fget(bb, c.URI), e.URI)
	}
	if strings.TrimRight(fget(bb, c.Params), " \t\r\n") != e.Params {
		return fmt.Sprintf("parameters %q, expected %q", fget(bb, c.Params), e.Params)
	}
	if fget(bb, c.V) != e.Text {
		return fmt.Sprintf("value %q, expected %q", fget(bb, c.V), e.Text)
	}
	if e.HasTag != (c.Tag.Len > 0) || (e.HasTag && fget(bb, c.Tag) != e.Tag) {
		return fmt.Sprintf("tag %q, expected %q", fget(bb, c.Tag), e.Tag)
	}
	if (e.Expires != "") != c.HasExpires || (e.Expires != "" && c.Expires != satExpires(e.Expires)) {
		return fmt.Sprintf("expires %d (present=%v), expected %q", c.Expires, c.HasExpires, e.Expires)
	}
	if e.LR != c.LR {
		return fmt.Sprintf("lr=%v, expected %v", c.LR, e.LR)
	}
	if c.Star {
		return "star reported for a non-star value"
	}
	if int(c.Type) != h {
		return fmt.Sprintf("kind of header %d, expected %d", c.Type, h)
	}
	return ""
}

func (g *Gen) genC09() {
	g.exhOneShot("C09", "na")
	r := g.r
	n := g.budget(2500, 80000)
	for i := 0; i < n; i++ {
		lws := r.P(65)
		if r.P(55) { // single value through ParseNameAddrPVal
			h := []int{1, 2, 8, 11, 12, 13}[r.N(6)]
			e := r.NameAddr(lws, h == 8)
			lead := ""
			if lws {
				lead = r.LWS0()
			}
			trail := ""
			if lws {
				trail = r.Pick("", " ", "\t")
			}
			text := lead + e.Text + trail + r.EOL() + "X"
			cuts := r.Cuts(text, len(text))
			sess := parseSess(fmt.Sprintf("nameaddr %d", h), text, 0, cuts, 0, false, "O")
			g.add(Case{Prop: "C09", Desc: "single-value", Lines: []string{sess}, Check: func(out []string) string {
				return protect(func() string {
					var c sipsp.PFromBody
					bb := []byte(text)
					o, err := sipsp.ParseNameAddrPVal(sipsp.HdrT(h), bb, 0, &c)
					if err != 0 || o != len(text)-1 {
						return fmt.Sprintf("well-formed value %q: got (%d,%v)", text, o, err)
					}
					if m := checkNA(bb, e, &c, h); m != "" {
						return fmt.Sprintf("value %q: %s", e.Text, m)
					}
					return ""
				})
			}})
			continue
		}
		// lists through a whole message (Contact / PAI headers)
		nh := 1 + r.N(3)
		var all []*NAExp
		var hdrs strings.Builder
		hNo := 0
		for k := 0; k < nh; k++ {
			nv := 1 + r.N(4)
			if r.P(8) { // a header line that is the single value '*' (un-register all): counted and summarised like any value
				hdrs.WriteString(r.HdrName(8) + ":" + r.LWS0() + "*" + r.Pick("", " ") + "\r\n")
				all = append(all, &NAExp{Text: "*", Star: true})
				hNo++
				continue
			}
			hdrs.WriteString(r.HdrName(8) + ":" + r.LWS0())
			for v := 0; v < nv; v++ {
				e := r.NameAddr(lws, false)
				all = append(all, e)
				if v > 0 {
					if lws {
						hdrs.WriteString(r.LWS0() + "," + r.LWS0())
					} else {
						hdrs.WriteString(",")
					}
				}
				hdrs.WriteString(e.Text)
			}
			hdrs.WriteString("\r\n")
			hNo++
			if r.P(30) {
				hdrs.WriteString("X-Filler: " + r.Alnum(1, 8) + "\r\n")
			}
		}
		text := "REGISTER sip:r.example.com SIP/2.0\r\nTo: <sip:a@b>\r\nFrom: <sip:a@b>;tag=1\r\n" + hdrs.String() + "Content-Length: 0\r\n\r\n"
		ccap := r.N(len(all)+3) - 1
		hcap := r.N(14) - 1
		cuts := r.Cuts(text, len(text))
		sess := parseSess("msg "+capArg(hcap)+" "+capArg(ccap), text, 0, cuts, 0, false, "O")
		g.add(Case{Prop: "C09", Desc: "contact-lists", Lines: []string{sess}, Check: func(out []string) string {
			return protect(func() string {
				m := newMsg(hcap, ccap)
				bb := []byte(text)
				var err sipsp.ErrorHdr
				off := 0
				for _, c := range cuts {
					off, err = sipsp.ParseSIPMsg(bb[:c], off, m, 0)
					if err != sipsp.ErrHdrMoreBytes {
						break
					}
				}
				if err != 0 {
					return fmt.Sprintf("message with %d well-formed contact values in %d headers rejected: %v at %d", len(all), hNo, err, off)
				}
				cs := &m.PV.Contacts
				if cs.N != len(all) || cs.HNo != hNo {
					return fmt.Sprintf("%d values in %d headers reported, expected %d in %d", cs.N, cs.HNo, len(all), hNo)
				}
				var mx, mn uint32 = 0, 0xffffffff
				for _, e := range all {
					var x uint32
					if e.Expires != "" {
						x = satExpires(e.Expires)
					}
					if x > mx {
						mx = x
					}
					if x < mn {
						mn = x
					}
				}
				if cs.MaxExpires != mx || cs.MinExpires != mn {
					return fmt.Sprintf("expires summary min/max %d/%d, expected %d/%d (capacity %d)", cs.MinExpires, cs.MaxExpires, mn, mx, ccap)
				}
				for k := 0; k < cs.VNo(); k++ {
					if mm := checkNA(bb, all[k], &cs.Vals[k], 8); mm != "" {
						return fmt.Sprintf("contact #%d %q: %s", k, all[k].Text, mm)
					}
				}
				if f := cs.GetContact(0); f == nil || checkNA(bb, all[0], f, 8) != "" {
					return "first contact not retrievable"
				}
				if l := cs.GetContact(cs.N - 1); l == nil || checkNA(bb, all[len(all)-1], l, 8) != "" {
					return fmt.Sprintf("last contact not retrievable (capacity %d, %d values)", ccap, cs.N)
				}
				return ""
			})
		}})
	}
}

// ---------------------------------------------------------------- C14

func tiles(uri []byte, u *sipsp.PsipURI, n int) string {
	if n != len(uri) {
		return fmt.Sprintf("consumed length %d != input length %d", n, len(uri))
	}
	schLen := 4
	if u.URIType == sipsp.SIPSuri {
		schLen = 5
	}
	if u.Scheme.Offs != 0 || int(u.Scheme.Len) != schLen {
		return "scheme span wrong"
	}
	pos := schLen
	type comp struct {
		name  string
		f     sipsp.PField
		delim byte // delimiter that must precede it (0 = none)
	}
	hasUser := u.User.Offs != 0
	comps := []comp{}
	if hasUser {
		comps = append(comps, comp{"user", u.User, 0})
		if u.Pass.Offs != 0 {
			comps = append(comps, comp{"password", u.Pass, ':'})
		}
	} else if u.Pass.Offs != 0 || u.Pass.Len != 0 {
		return "password without user"
	}
	d := byte(0)
	if hasUser {
		d = '@'
	}
	comps = append(comps, comp{"host", u.Host, d})
	if u.Port.Offs != 0 {
		comps = append(comps, comp{"port", u.Port, ':'})
	}
	if u.Params.Offs != 0 {
		comps = append(comps, comp{"params", u.Params, ';'})
	}
	if u.Headers.Offs != 0 {
		comps = append(comps, comp{"headers", u.Headers, '?'})
	}
	for _, c := range comps {
		if c.delim != 0 {
			if pos >= len(uri) || uri[pos] != c.delim {
				return fmt.Sprintf("%s is not preceded by %q at %d", c.name, c.delim, pos)
			}
			pos++
		}
		if int(c.f.Offs) != pos {
			return fmt.Sprintf("%s starts at %d, expected %d (components must tile the input)", c.name, c.f.Offs, pos)
		}
		pos += int(c.f.Len)
		if pos > len(uri) {
			return fmt.Sprintf("%s runs past the end", c.name)
		}
	}
	if pos != len(uri) {
		return fmt.Sprintf("components end at %d, input has %d bytes (something dropped)", pos, len(uri))
	}
	if u.Host.Len == 0 {
		return "accepted with an empty host"
	}
	return ""
}

func (g *Gen) c14case(uri string, kind string) {
	line := fmt.Sprintf("uri | B %s | P %d 0 0 | O", hx(uri), len(uri))
	g.add(Case{Prop: "C14", Desc: kind, Lines: []string{line}, Check: func(out []string) string {
		return protect(func() string {
			var u sipsp.PsipURI
			bb := []byte(uri)
			err, n := sipsp.ParseURI(bb, &u)
			if err != 0 {
				if n < 0 || n > len(bb) {
					return fmt.Sprintf("rejected URI %q: error position %d outside the input", uri, n)
				}
				return ""
			}
			if u.URIType == sipsp.TELuri {
				if u.Host.Len != 0 {
					return "tel: URI reported with a host"
				}
				rest := uri[4:]
				if !strings.ContainsAny(rest, "@:") && rest != "" && rest[0] != ';' && rest[0] != '?' {
					end := strings.IndexAny(rest, ";?")
					if end < 0 {
						end = len(rest)
					}
					if fget(bb, u.User) != rest[:end] {
						return fmt.Sprintf("tel: number %q reported as %q", rest[:end], fget(bb, u.User))
					}
				}
				return ""
			}
			if m := tiles(bb, &u, n); m != "" {
				return fmt.Sprintf("accepted URI %q: %s [user=%q pass=%q host=%q port=%q params=%q headers=%q]", uri, m,
					fget(bb, u.User), fget(bb, u.Pass), fget(bb, u.Host), fget(bb, u.Port), fget(bb, u.Params), fget(bb, u.Headers))
			}
			return ""
		})
	}})
}

func (g *Gen) genC14() {
	r := g.r
	alpha := ":@;?&=[].a1"
	maxLen := 4
	if g.tier == "thorough" {
		maxLen = 6
	}
	schemes := []string{"sip:", "sips:", "tel:", "SIP:", "sIpS:", "TEL:"}
	var rec func(p []byte)
	rec = func(p []byte) {
		for _, s := range schemes {
			if g.tier != "thorough" && s != "sip:" && s != "sips:" && len(p) > 3 {
				continue
			}
			g.c14case(s+string(p), "exhaustive-delimiter-alphabet")
		}
		if len(p) >= maxLen {
			return
		}
		for _, c := range []byte(alpha) {
			rec(append(p, c))
		}
	}
	rec(nil)
	if g.tier != "thorough" {
		// quick tier: the structural delimiters alone, two more bytes deep (every back-tracking path of the automaton —
		// bracketed host, port, parameters, headers re-attributed to the user part by a late '@' — needs 5 or 6 bytes)
		alpha2, maxLen2 := ":@;?[]a", 6
		schemes2 := []string{"sip:", "tel:"}
		var rec2 func(p []byte)
		rec2 = func(p []byte) {
			if len(p) > 4 {
				for _, s := range schemes2 {
					g.c14case(s+string(p), "exhaustive-structural-alphabet")
				}
			}
			if len(p) >= maxLen2 {
				return
			}
			for _, c := range []byte(alpha2) {
				rec2(append(p, c))
			}
		}
		rec2(nil)
	}
	n := g.budget(4000, 200000)
	for i := 0; i < n; i++ {
		var u string
		switch r.N(6) {
		case 0, 1:
			u = r.URI()
		case 2:
			p := r.URIParts()
			p.HasUser = true
			p.User = r.Alnum(1, 5) + r.Pick(";x=y", "?a=b", ";p;q", ";a?b", "?a;b", ";day=tue")
			p.HasPass = r.P(60)
			p.Pass = r.Alnum(1, 5)
			u = p.String()
		case 3:
			u = r.Mutate(r.URI())
		case 4:
			u = r.Pick("sip:", "sips:", "tel:") + r.RandBytes(alpha+"bc23", 0, 30)
		default:
			u = "tel:" + r.RandBytes("+0123456789-", 1, 12) + r.Pick("", ";ext=1", ";a=b?c", "?x")
		}
		g.c14case(u, "random")
	}
}

// ---------------------------------------------------------------- C15

// uriVariant returns a URI equivalent to p under the comparison laws (re-cased / permuted).
func (g *Gen) recaseList(lst, sep string) string {
	r := g.r
	if lst == "" {
		return lst
	}
	items := strings.Split(lst, sep)
	for i := len(items) - 1; i > 0; i-- {
		j := r.N(i + 1)
		items[i], items[j] = items[j], items[i]
	}
	for i := range items {
		items[i] = r.ReCase(items[i])
	}
	return strings.Join(items, sep)
}

func uniqueNames(lst, sep string) bool {
	seen := map[string]bool{}
	for _, it := range strings.Split(lst, sep) {
		nm := asciiLower(strings.SplitN(it, "=", 2)[0])
		if seen[nm] {
			return false
		}
		seen[nm] = true
	}
	return true
}

func (g *Gen) genC15() {
	r := g.r
	n := g.budget(1500, 60000)
	for i := 0; i < n; i++ {
		var p *URIParts
		for {
			p = r.URIParts()
			if p.HasUser {
				p.User = r.Alnum(1, 8) // keep ';' '?' out of the user part here
			}
			if (!p.HasParams || (p.Params != "" && uniqueNames(p.Params, ";"))) &&
				(!p.HasHeaders || (p.Headers != "" && uniqueNames(p.Headers, "&"))) {
				break
			}
		}
		if p.HasParams && p.Params != "" && r.P(20) {
			// a quoted-string value (accepted by the parameter parser; letter case inside the quotes is case of a VALUE)
			items := strings.Split(p.Params, ";")
			k := r.N(len(items))
			nv := strings.SplitN(items[k], "=", 2)
			items[k] = nv[0] + "=\"" + r.Pick("Call-Me", "aB", "xY.z", "Q") + r.Alnum(0, 4) + "\""
			p.Params = strings.Join(items, ";")
		}
		if p.HasParams && p.Params != "" && r.P(10) {
			// '&' is an ordinary byte inside a URI PARAMETER (it only separates URI headers)
			items := strings.Split(p.Params, ";")
			k := r.N(len(items))
			nv := strings.SplitN(items[k], "=", 2)
			items[k] = nv[0] + "=" + r.Alnum(1, 3) + "&" + r.Alnum(1, 3)
			p.Params = strings.Join(items, ";")
		}
		if r.P(6) { // long lists: 17 … 40 URI headers / parameters (more than any small fixed-size scratch array)
			n := 17 + r.N(24)
			if r.P(30) { // around the size of the library's own scratch arrays (100 entries)
				n = []int{99, 100, 101, 102, 130}[r.N(5)]
			}
			var items []string
			for k := 0; k < n; k++ {
				items = append(items, fmt.Sprintf("x-h%d=%s", k, r.Alnum(1, 4)))
			}
			if r.P(50) {
				p.HasHeaders, p.Headers = true, strings.Join(items, "&")
			} else {
				p.HasParams, p.Params = true, strings.Join(items, ";")
			}
		}
		a := p.String()
		q := *p
		kind := "equivalent-variant"
		expectEq := true
		q.Scheme = r.ReCase(q.Scheme)
		q.Host = r.ReCase(q.Host)
		if q.HasParams {
			q.Params = g.recaseList(q.Params, ";")
		}
		if q.HasHeaders {
			// header values compare case-insensitively too in this implementation; names per the property
			q.Headers = g.recaseList(q.Headers, "&")
		}
		switch r.N(8) {
		case 0:
			if q.HasUser && q.User != r.ReCase(q.User) {
				q.User = swapCase(q.User)
				if q.User != p.User {
					kind, expectEq = "user-case", false
				}
			}
		case 1:
			if q.HasPass {
				q.Pass = swapCase(q.Pass)
				if q.Pass != p.Pass {
					kind, expectEq = "password-case", false
				}
			}
		case 2: // presence of user/ttl/method/maddr in exactly one
			nm := r.Pick("user", "ttl", "method", "maddr")
			if !strings.Contains(asciiLower(";"+q.Params+";"), ";"+nm) {
				if q.HasParams && q.Params != "" {
					q.Params += ";" + nm + "=x1"
				} else {
					q.HasParams, q.Params = true, nm+"=x1"
				}
				kind, expectEq = "special-param-in-one", false
			}
		case 4, 5: // a shared parameter with a different value, lists of different lengths
			if q.HasParams && q.Params != "" {
				items := strings.Split(q.Params, ";")
				k := r.N(len(items))
				nv := strings.SplitN(items[k], "=", 2)
				items[k] = nv[0] + "=" + "zz" + r.Alnum(1, 3)
				for len(nv) == 2 && asciiLower(items[k]) == asciiLower(nv[0]+"="+nv[1]) {
					items[k] = nv[0] + "=" + "zz" + r.Alnum(1, 3)
				}
				var extra []string
				for e := 0; e < r.N(4); e++ {
					extra = append(extra, "y"+r.Alnum(2, 5)+"="+r.Alnum(1, 3))
				}
				if r.P(50) {
					items = append(extra, items...)
				} else {
					items = append(items, extra...)
				}
				if cand := strings.Join(items, ";"); uniqueNames(cand, ";") { // the added names must not repeat one another
					q.Params = cand
					kind, expectEq = "param-value-differs", false
				}
			}
		case 6: // a shared URI header with a different value, lists of equal length
			if q.HasHeaders && q.Headers != "" {
				items := strings.Split(q.Headers, "&")
				k := r.N(len(items))
				nv := strings.SplitN(items[k], "=", 2)
				items[k] = nv[0] + "=" + "zz" + r.Alnum(1, 3)
				q.Headers = strings.Join(items, "&")
				kind, expectEq = "header-value-differs", false
			}
		case 3:
			kind = "different"
			for {
				q = *r.URIParts()
				if q.HasUser {
					q.User = r.Alnum(1, 8)
				}
				if (!q.HasParams || (q.Params != "" && uniqueNames(q.Params, ";"))) &&
					(!q.HasHeaders || (q.Headers != "" && uniqueNames(q.Headers, "&"))) {
					break
				}
			}
			expectEq = false
			if q.String() == a {
				expectEq = true
			}
		}
		bq := q.String()
		var pairs []string
		flagsList := []int{0, r.N(64), 63}
		// sessions: same holders reused across several pairs
		for _, f := range flagsList {
			pairs = append(pairs, fmt.Sprintf("uricmp %d %s %s %s %s %s %s", f, hx(a), hx(bq), hx(bq), hx(a), hx(a), hx(a)))
		}
		ee, kk := expectEq, kind
		over100 := strings.Count(p.Params, ";") >= 100 || strings.Count(p.Headers, "&") >= 100 ||
			strings.Count(q.Params, ";") >= 100 || strings.Count(q.Headers, "&") >= 100
		g.add(Case{Prop: "C15", Desc: kind, Lines: pairs, Check: func(out []string) (res string) {
			defer func() {
				if res != "" && over100 {
					res = "more than 100 URI parameters / headers: " + res
				}
			}()
			return protect(func() string {
				ba, bb := []byte(a), []byte(bq)
				var ua, ub sipsp.PsipURI
				ea, _ := sipsp.ParseURI(ba, &ua)
				eb, _ := sipsp.ParseURI(bb, &ub)
				if ea != 0 || eb != 0 {
					return ""
				}
				for f := 0; f < 64; f++ {
					fl := sipsp.URICmpFlags(f)
					ab := sipsp.URICmp(&ua, ba, &ub, bb, fl)
					ba2 := sipsp.URICmp(&ub, bb, &ua, ba, fl)
					if ab != ba2 {
						return fmt.Sprintf("not symmetric (flags %d): cmp(%q,%q)=%v but reversed=%v", f, a, bq, ab, ba2)
					}
					if !sipsp.URICmp(&ua, ba, &ua, ba, fl) || !sipsp.URICmp(&ub, bb, &ub, bb, fl) {
						return fmt.Sprintf("not reflexive (flags %d) on %q / %q", f, a, bq)
					}
					if f == 0 && kk != "different" && ab != ee {
						return fmt.Sprintf("%s: cmp(%q,%q)=%v, expected %v", kk, a, bq, ab, ee)
					}
					// ignoring more can only turn different into equal
					for bit := 1; bit < 64; bit <<= 1 {
						if f&bit == 0 && ab && !sipsp.URICmp(&ua, ba, &ub, bb, fl|sipsp.URICmpFlags(bit)) {
							return fmt.Sprintf("equal with flags %d but different with more skipped (%d)", f, f|bit)
						}
					}
					// entry points agree, including the URIs handed back (holders reused)
					var r1, r2 sipsp.PsipURI
					// pre-fill the holders with another URI to model reuse
					sipsp.ParseURI([]byte("sips:zz:pw@other.example:5;tt=1?hh=2"), &r1)
					r2 = r1
					pr, pe, _ := sipsp.URIParseCmp(ba, bb, fl, &r1, &r2)
					rr, re, _ := sipsp.URIRawCmp(ba, bb, fl)
					if pe != 0 || re != 0 || pr != ab || rr != ab {
						return fmt.Sprintf("entry points disagree (flags %d): separate=%v parse-and-compare=%v raw=%v", f, ab, pr, rr)
					}
					if r1 != ua || r2 != ub {
						return fmt.Sprintf("URIParseCmp hands back different parsed URIs than ParseURI (flags %d)", f)
					}
				}
				return ""
			})
		}})
	}
}

func swapCase(s string) string {
	b := []byte(s)
	for i, c := range b {
		if (c >= 'a' && c <= 'z') || (c >= 'A' && c <= 'Z') {
			b[i] = c ^ 0x20
			break
		}
	}
	return string(b)
}

// ---------------------------------------------------------------- C17

type pitem struct{ name, val string; hasVal bool }

// docAllowed: the documented name / value byte set of property C17 (uri = URI-parameter mode)
func docAllowed(c byte, uri bool) bool {
	if (c >= '0' && c <= '9') || (c >= 'A' && c <= 'Z') || (c >= 'a' && c <= 'z') {
		return true
	}
	if strings.IndexByte("-_.!~*'()%[]/:+$", c) >= 0 {
		return true
	}
	return (uri && c == '&') || (!uri && c == '?')
}

func (g *Gen) genC17() {
	g.exhOneShot("C17", "tp")
	// the allowed-byte table for every option word (256 bytes each): exactly the documented set
	for fl := 0; fl < 256; fl++ {
		fl := fl
		g.add(Case{Prop: "C17", Desc: "allowed-byte-table", Lines: []string{fmt.Sprintf("tokallowed %d", fl)}, Check: func(out []string) string {
			if len(out[0]) != 256 {
				return "allowed-byte table not produced: " + tailOf(out[0], 40)
			}
			for c := 0; c < 256; c++ {
				if (out[0][c] == '1') != docAllowed(byte(c), fl&64 != 0) {
					return fmt.Sprintf("option word %d: byte %#x allowed=%v, the documented set says %v", fl, c, out[0][c] == '1', docAllowed(byte(c), fl&64 != 0))
				}
			}
			return ""
		}})
	}
	// every byte outside the documented set, inside a name and inside a token value, for the separator modes
	for _, f2 := range []int{0, 16, 32, 64, 128, 16 | 1, 16 | 2, 16 | 4, 32 | 4} {
		f2 := f2
		sep := byte(';')
		if f2&(32|128) != 0 {
			sep = '&'
		}
		for c := 0; c < 256; c++ {
			bad := byte(c)
			if docAllowed(bad, f2&64 != 0) || bad == sep || bad == '=' || bad == '"' || bad == ' ' || bad == '\t' || bad == '\r' || bad == '\n' {
				continue
			}
			if (bad == ',' && f2&1 != 0) || (bad == '?' && f2&(2|64) != 0) {
				continue // the configured terminator ends the list
			}
			for where := 0; where < 2; where++ {
				bt := "ab" + string([]byte{bad}) + "c=v\r\nX"
				lim := 2 // the name must not extend over the bad byte
				if where == 1 {
					bt = "ab=v" + string([]byte{bad}) + "w\r\nX"
					lim = 4
				}
				where := where
				sess := parseSess("tokparam", bt, 0, []int{len(bt)}, f2, false, "O")
				g.add(Case{Prop: "C17", Desc: "foreign-byte-all", Lines: []string{sess}, Check: func(out []string) string {
					var p sipsp.PTokParam
					o, err := sipsp.ParseTokenParam([]byte(bt), 0, &p, sipsp.POptFlags(f2))
					if err == 0 || err == sipsp.ErrHdrEOH || err == sipsp.ErrHdrMoreValues {
						f := p.Name
						if where == 1 {
							f = p.Val
						}
						if fend(f) > lim {
							return fmt.Sprintf("option word %d: byte %#x outside the documented set was absorbed: %q -> (%d,%v) name %q value %q", f2, bad, bt, o, err, fget([]byte(bt), p.Name), fget([]byte(bt), p.Val))
						}
					}
					return ""
				}})
			}
		}
	}
	r := g.r
	n := g.budget(3000, 100000)
	for i := 0; i < n; i++ {
		mode := r.N(3) // 0 token params (';'), 1 uri params, 2 uri headers
		sep := ";"
		if mode == 2 {
			sep = "&"
		}
		lws := r.P(50)
		ws := func() string {
			if lws {
				return r.LWS0()
			}
			return ""
		}
		ni := r.N(7)
		var items []pitem
		var sb strings.Builder
		for k := 0; k < ni; k++ {
			if k > 0 {
				sb.WriteString(ws() + sep + ws())
				if r.P(10) {
					sb.WriteString(sep + ws()) // empty item: skipped
				}
			}
			var it pitem
			it.name = r.Alnum(1, 6)
			if mode == 1 && r.P(40) {
				it.name = r.KnownParamName()
			}
			sb.WriteString(it.name)
			switch r.N(5) {
			case 0:
			case 1:
				it.hasVal, it.val = true, r.Quoted()
				sb.WriteString(ws() + "=" + ws() + it.val)
			case 2:
				it.hasVal = true
				sb.WriteString("=")
			default:
				it.hasVal, it.val = true, r.Token(1, 8)
				sb.WriteString(ws() + "=" + ws() + it.val)
			}
			items = append(items, it)
		}
		lst := sb.String()
		// terminator
		flags := 0
		switch mode {
		case 1:
			flags = 64
		case 2:
			flags = 128
		default:
			flags = 16
		}
		term := ""
		expErr := sipsp.ErrHdrEOH
		expOffs := -1
		switch r.N(5) {
		case 0: // end of header
			term = r.Pick("", " ") + r.EOL() + "X"
			expOffs = len(lst) + len(term) - 1
		case 1: // end of input
			flags |= 8
			term = r.Pick("", " ", "")
			expOffs = len(lst) + len(term)
		case 2:
			if mode == 0 && ni > 0 {
				flags |= 1
				term = ws() + ",next"
				expErr = sipsp.ErrHdrOk
				expOffs = len(lst) + strings.Index(term, ",")
			} else {
				term = "\r\nX"
				expOffs = len(lst) + 2
			}
		case 3:
			if mode != 2 && ni > 0 {
				if mode == 0 {
					flags |= 2
				}
				term = ws() + "?h=1"
				expErr = sipsp.ErrHdrOk
				expOffs = len(lst) + strings.Index(term, "?")
			} else {
				term = "\nX"
				expOffs = len(lst) + 1
			}
		default:
			if ni > 0 && items[ni-1].hasVal && items[ni-1].val != "" {
				flags |= 4
				w := r.LWS1()
				term = w + "tok"
				expErr = sipsp.ErrHdrOk
				expOffs = len(lst) + len(w) - 1
			} else {
				term = "\r\nX"
				expOffs = len(lst) + 2
			}
		}
		// an empty item right before a ',' / '?' terminator (skipped like any other empty item)
		trailEmpty := false
		if expErr == sipsp.ErrHdrOk && flags&4 == 0 && r.P(12) {
			trailEmpty = true
			ins := ws() + sep + ws()
			lst += ins
			expOffs += len(ins)
		}
		text := lst + term
		cap := r.N(ni + 3)
		var hd string
		switch mode {
		case 0:
			hd = "tokparam"
		case 1:
			hd = fmt.Sprintf("uriparams %d", cap)
		default:
			hd = fmt.Sprintf("urihdrs %d", cap)
		}
		cuts := []int{len(text)}
		if flags&8 == 0 && r.P(50) {
			cuts = r.Cuts(text, len(text))
		}
		sess := parseSess(hd, text, 0, cuts, flags, false, "O")
		if flags&8 == 0 {
			// the list end (offset, verdict) must not depend on how the text was chunked
			g.add(resumeCase("C17", hd, text, 0, r.Cuts(text, len(text)), flags, flags, "list-end-chunked"))
		}
		g.add(Case{Prop: "C17", Desc: []string{"token-params", "uri-params", "uri-headers"}[mode], Lines: []string{sess}, Check: func(out []string) string {
			m := protect(func() string {
				bb := []byte(text)
				chk := func(k int, p *sipsp.PTokParam) string {
					if k >= len(items) {
						return fmt.Sprintf("extra parameter #%d %q", k, fget(bb, p.All))
					}
					it := items[k]
					if fget(bb, p.Name) != it.name {
						return fmt.Sprintf("parameter #%d name %q, expected %q", k, fget(bb, p.Name), it.name)
					}
					if fget(bb, p.Val) != it.val {
						return fmt.Sprintf("parameter #%d (%q) value %q, expected %q", k, it.name, fget(bb, p.Val), it.val)
					}
					return ""
				}
				if len(items) == 0 {
					// empty list: there is no parameter to count (known finding F17 on the unchanged tree)
					switch mode {
					case 1:
						var l sipsp.URIParamsLst
						l.Init(make([]sipsp.URIParam, cap))
						sipsp.ParseAllURIParams(bb, 0, &l, sipsp.POptFlags(flags))
						if l.N != 0 {
							return fmt.Sprintf("phantom parameter: empty URI parameter list %q (flags %d) counted as N=%d", text, flags, l.N)
						}
					case 2:
						var l sipsp.URIHdrsLst
						l.Init(make([]sipsp.URIHdr, cap))
						sipsp.ParseAllURIHdrs(bb, 0, &l, sipsp.POptFlags(flags))
						if l.N != 0 {
							return fmt.Sprintf("phantom parameter: empty URI header list %q (flags %d) counted as N=%d", text, flags, l.N)
						}
					}
					return ""
				}
				switch mode {
				case 0:
					offs := 0
					k := 0
					for {
						var p sipsp.PTokParam
						o, err := sipsp.ParseTokenParam(bb, offs, &p, sipsp.POptFlags(flags))
						if err != sipsp.ErrHdrMoreValues && err != expErr {
							return fmt.Sprintf("list %q flags %d: parameter #%d returned (%d,%v), expected final verdict %v", text, flags, k, o, err, expErr)
						}
						if m := chk(k, &p); m != "" {
							return fmt.Sprintf("list %q: %s", text, m)
						}
						k++
						if err != sipsp.ErrHdrMoreValues {
							if o != expOffs {
								return fmt.Sprintf("list %q flags %d: end offset %d, expected %d", text, flags, o, expOffs)
							}
							break
						}
						offs = o
					}
					if k != len(items) {
						return fmt.Sprintf("list %q: %d parameters reported, expected %d", text, k, len(items))
					}
				case 1:
					var l sipsp.URIParamsLst
					l.Init(make([]sipsp.URIParam, cap))
					o, _, err := sipsp.ParseAllURIParams(bb, 0, &l, sipsp.POptFlags(flags))
					if err != expErr || o != expOffs {
						return fmt.Sprintf("URI params %q flags %d: got (%d,%v), expected (%d,%v)", text, flags, o, err, expOffs, expErr)
					}
					if l.N != len(items) {
						return fmt.Sprintf("URI params %q: count %d, expected %d", text, l.N, len(items))
					}
					var types sipsp.URIParamF
					for k, it := range items {
						t := sipsp.URIParamOtherF
						switch asciiLower(it.name) {
						case "transport":
							t = sipsp.URIParamTransportF
						case "user":
							t = sipsp.URIParamUserF
						case "method":
							t = sipsp.URIParamMethodF
						case "ttl":
							t = sipsp.URIParamTTLF
						case "maddr":
							t = sipsp.URIParamMaddrF
						case "lr":
							t = sipsp.URIParamLRF
						}
						types |= t
						if k < cap {
							if m := chk(k, &l.Params[k].Param); m != "" {
								return fmt.Sprintf("URI params %q: %s", text, m)
							}
							if l.Params[k].T != t {
								return fmt.Sprintf("URI param %q classified %d, expected %d", it.name, l.Params[k].T, t)
							}
						}
					}
					if l.Types != types {
						return fmt.Sprintf("URI params %q: type flags %d, expected %d", text, l.Types, types)
					}
				default:
					var l sipsp.URIHdrsLst
					l.Init(make([]sipsp.URIHdr, cap))
					o, _, err := sipsp.ParseAllURIHdrs(bb, 0, &l, sipsp.POptFlags(flags))
					if err != expErr || o != expOffs {
						return fmt.Sprintf("URI headers %q flags %d: got (%d,%v), expected (%d,%v)", text, flags, o, err, expOffs, expErr)
					}
					if l.N != len(items) {
						return fmt.Sprintf("URI headers %q: count %d, expected %d", text, l.N, len(items))
					}
					for k := range items {
						if k < cap {
							if m := chk(k, (*sipsp.PTokParam)(&l.Hdrs[k])); m != "" {
								return fmt.Sprintf("URI headers %q: %s", text, m)
							}
						}
					}
				}
				return ""
			})
			if m != "" && trailEmpty {
				return "empty item before the terminator not skipped: " + m
			}
			return m
		}})
		// a foreign byte inserted somewhere in a name or token value must be rejected, not absorbed
		if ni > 0 && r.P(40) {
			bad := []byte{'@', '=', '"', '<', '>', '{', '}', '|', '^', '`', 0x7f, 0x80, 0x01, ',', '#', '\\'}[r.N(16)]
			if mode == 1 {
				bad = []byte{'@', '"', '<', '>', '{', '?', '#', ',', 0x80}[r.N(9)]
			}
			nm := r.Alnum(2, 5)
			pos := 1 + r.N(len(nm)-1)
			bt := nm[:pos] + string([]byte{bad}) + nm[pos:] + "=v\r\nX"
			if bad == '=' || bad == '"' || (bad == ',' && flags&1 != 0) {
				continue
			}
			f2 := flags &^ (1 | 2 | 4 | 8)
			if mode == 1 && bad == '?' {
				f2 = 64
			}
			sess2 := parseSess("tokparam", bt, 0, []int{len(bt)}, f2, false, "O")
			g.add(Case{Prop: "C17", Desc: "foreign-byte", Lines: []string{sess2}, Check: func(out []string) string {
				var p sipsp.PTokParam
				o, err := sipsp.ParseTokenParam([]byte(bt), 0, &p, sipsp.POptFlags(f2))
				if (err == 0 || err == sipsp.ErrHdrEOH || err == sipsp.ErrHdrMoreValues) && fend(p.Name) > pos {
					return fmt.Sprintf("byte %#x inside a parameter name was absorbed: %q -> (%d,%v) name %q", bad, bt, o, err, fget([]byte(bt), p.Name))
				}
				return ""
			}})
		}
	}
	// branch of the first Via
	m := g.budget(500, 20000)
	for i := 0; i < m; i++ {
		br := r.Token(1, 14)
		pre := r.Pick("", "z9hG4bK")
		via := "SIP/2.0/UDP " + r.Host() + r.Pick("", ";rport", ";x=y;a") + ";" + r.ReCase("branch") + "=" + pre + br + r.Pick("", ";ttl=1", ";branch=zzz", ", SIP/2.0/TCP h;branch=q1")
		if r.P(10) { // a value-less branch after a valued parameter: the first branch has no value => empty signature
			via2 := "SIP/2.0/UDP " + r.Host() + ";" + r.Pick("received=10.0.0.1", "x=host-7_b", "ttl=1") + ";" + r.ReCase("branch") + r.Pick("", ";rport", ";branch=zz.9")
			g.add(Case{Prop: "C17", Desc: "via-branch-novalue", Lines: []string{"viabrsig " + hx(via2)}, Check: func(out []string) string {
				sg, l := sipsp.GetViaBrSig([]byte(via2))
				if sg != 0 || l != 0 {
					return fmt.Sprintf("GetViaBrSig(%q): the first branch parameter has no value, got signature %#x length %d", via2, sg, l)
				}
				return ""
			}})
		}
		g.add(Case{Prop: "C17", Desc: "via-branch", Lines: []string{"viabrsig " + hx(via)}, Check: func(out []string) string {
			_, l := sipsp.GetViaBrSig([]byte(via))
			want := len(br)
			if pre == "" && len(br) <= 7 {
				want = len(br)
			}
			if pre != "" && len(pre+br) <= 7 {
				want = len(pre + br)
			}
			if l != want {
				return fmt.Sprintf("GetViaBrSig(%q): branch length %d, expected %d (first branch %q)", via, l, want, pre+br)
			}
			return ""
		}})
	}
}

// ---------------------------------------------------------------- C18

func (g *Gen) genC18() {
	r := g.r
	n := g.budget(2500, 80000)
	for i := 0; i < n; i++ {
		uri := r.URI()
		if r.P(25) {
			uri = "sip:" + r.RandBytes(":@;?&=[].a1", 1, 8)
		}
		if r.P(10) {
			uri = r.Pick("sip:foo;", "sip:foo?", "sip:u@h:5060;", "sip:foo:0", "sip:u@foo.bar:000?h=1", "sip:h;a?")
		}
		if r.P(12) {
			// tel: with the sip-style delimiters (a "password" before the number, ports, parameters)
			uri = r.Pick("tel:", "TEL:", "tel:+") + r.RandBytes(":@;?&=.a1", 1, 8)
		}
		off := []int{0, 1, 4, 255, 65535 - len(uri) - 2}[r.N(5)]
		if r.P(30) {
			off = r.N(60000)
		}
		span := r.N(len(uri) + 3)
		if r.P(40) {
			span = len(uri) - 1 + r.N(3)
		}
		if span < 0 {
			span = 0
		}
		// spans whose end does not fit in the 16-bit offsets (the quantifier takes offsets up to 65,535-len AND span
		// lengths up to len+k): they cannot hold the URI inside any legal buffer and must be refused, never crash
		wraps := false
		if r.P(12) {
			switch r.N(4) {
			case 0:
				off, span = 65535-len(uri), len(uri)+1+r.N(3)
			case 1:
				off, span = 65536-len(uri)+r.N(len(uri)), len(uri)
			case 2:
				off, span = 1+r.N(70), 65535
			default:
				off, span = 30000+r.N(35535), 36000+r.N(29535)
			}
			wraps = off+span >= 65536
		}
		line := fmt.Sprintf("uri | B %s | P %d 0 0 | O | V | A %d %d | O | A %d %d | O | T | O", hx(uri), len(uri), off, span, r.N(100), len(uri)+1)
		g.add(Case{Prop: "C18", Desc: "relocate-views", Lines: []string{line}, Check: func(out []string) string {
			return protect(func() string {
				bb := []byte(uri)
				var u sipsp.PsipURI
				if err, _ := sipsp.ParseURI(bb, &u); err != 0 {
					return ""
				}
				orig := u
				comps := func(x *sipsp.PsipURI) []sipsp.PField {
					return []sipsp.PField{x.Scheme, x.User, x.Pass, x.Host, x.Port, x.Params, x.Headers}
				}
				ok := u.AdjustOffs(sipsp.PField{Offs: sipsp.OffsT(off), Len: sipsp.OffsT(span)})
				if wraps {
					if ok {
						return fmt.Sprintf("relocating %q onto the span (%d,+%d), which ends past the 16-bit range, accepted: %+v", uri, off, span, u)
					}
					if u != orig {
						return "refused relocation (span past the 16-bit range) modified the structure"
					}
				} else if span >= len(uri) {
					if !ok {
						return fmt.Sprintf("relocating %q onto a span of %d >= %d bytes refused", uri, span, len(uri))
					}
					target := make([]byte, off+span)
					copy(target[off:], bb)
					oc, nc := comps(&orig), comps(&u)
					for k := range oc {
						if oc[k].Len != nc[k].Len {
							return fmt.Sprintf("component %d changed length on relocation", k)
						}
						if oc[k].Len > 0 && !bytes.Equal(oc[k].Get(bb), nc[k].Get(target)) {
							return fmt.Sprintf("component %d denotes %q after relocation, %q before", k, nc[k].Get(target), oc[k].Get(bb))
						}
					}
					if u.PortNo != orig.PortNo || u.URIType != orig.URIType {
						return "non-positional values changed on relocation"
					}
				} else {
					if ok {
						return fmt.Sprintf("relocating %q (%d bytes) onto a span of %d bytes accepted", uri, len(uri), span)
					}
					if u != orig {
						return "refused relocation modified the structure"
					}
				}
				// views on the original
				u = orig
				lg, sh := u.Long(), u.Short()
				lastEnd := 0
				for _, f := range comps(&u) {
					// the last non-empty component is the one that lies last in the text (for tel: the
					// number, kept in User, lies after a password)
					if f.Len > 0 && fend(f) > lastEnd {
						lastEnd = fend(f)
					}
				}
				if u.User.Len+u.Pass.Len+u.Host.Len+u.Port.Len+u.Params.Len+u.Headers.Len > 0 {
					if int(lg.Offs) != int(u.Scheme.Offs) || fend(lg) != lastEnd {
						return fmt.Sprintf("long view [%d,+%d) does not cover scheme through the last non-empty component (ends %d) of %q", lg.Offs, lg.Len, lastEnd, uri)
					}
				}
				shEnd := 0
				if u.Port.Len > 0 {
					shEnd = fend(u.Port)
				} else if u.Host.Len > 0 {
					shEnd = fend(u.Host)
				} else if u.User.Len > 0 {
					shEnd = fend(u.User)
				}
				if shEnd > 0 && (int(sh.Offs) != int(u.Scheme.Offs) || fend(sh) != shEnd) {
					return fmt.Sprintf("short view [%d,+%d) does not stop at host/port (%d) of %q", sh.Offs, sh.Len, shEnd, uri)
				}
				if sh.Len > lg.Len || sh.Offs != lg.Offs && sh.Len > 0 {
					return "short view is not a prefix of the long view"
				}
				if !bytes.Equal(u.Flat(bb), bb[lg.Offs:fend(lg)]) {
					return "Flat() is not the long view"
				}
				t := orig
				t.Truncate()
				want := orig
				want.Params, want.Headers = sipsp.PField{}, sipsp.PField{}
				if t != want {
					return "Truncate() changed more than parameters and headers"
				}
				if t.Long() != orig.Short() && orig.Host.Len > 0 && orig.Pass.Len == 0 {
					return fmt.Sprintf("after Truncate the long view %v differs from the short view %v of %q", t.Long(), orig.Short(), uri)
				}
				return ""
			})
		}})
	}
}

// ---------------------------------------------------------------- C19

type sigHdr struct {
	typ   int
	raw   string
	finger bool
}

var viaOtherParamRe = regexp.MustCompile(`;(received|x|maddr|ttl|y)=([^;,\r\n]*)`)

func (g *Gen) genC19() {
	r := g.r
	n := g.budget(1200, 40000)
	for i := 0; i < n; i++ {
		method := methods[r.N(len(methods))]
		if r.P(30) {
			method = "INVITE"
		} else if r.P(15) { // a method the library does not know (reported as 'other'; must still render as one hex digit)
			method = r.Pick("PING", "FOOBAR", "KDMQ", "invite", "X", r.Alnum(1, 9))
		}
		fl := method + " " + r.URI() + " SIP/2.0\r\n"
		fingerTypes := []int{3, 8, 4, 1, 6, 2, 5, 10}
		var hs []sigHdr
		for _, t := range fingerTypes {
			if r.P(85) {
				name := r.HdrName(t)
				val := r.genValue(t, false, method, &MsgSpec{sane: true})
				if t == 5 {
					val = "SIP/2.0/UDP " + r.Host() + r.Pick("", "", ";rport", ";ttl=3") + ";" + r.Pick("branch", "branch", r.ReCase("branch"), "BRANCH") + "=" + r.Pick("z9hG4bK", "", r.ReCase("z9hG4bK")) + r.Pick(r.Token(4, 12), "nashds8", r.Alnum(3, 7), r.Alnum(3, 7), "a.b-c", "deadbeef00112233") + r.Pick("", "", ";rport", ", SIP/2.0/TCP h2;branch=zz-9")
					if r.P(8) { // a branch parameter WITHOUT value after a parameter that has one
						val = "SIP/2.0/UDP " + r.Host() + ";" + r.Pick("received=10.0.0.1", "x=host-7_b", "maddr=a.b-c", "ttl=1") + ";" + r.Pick("branch", "Branch") + r.Pick("", ";rport", ";y=z-1")
					}
					if r.P(15) { // an old-style first Via without a branch parameter
						val = "SIP/2.0/UDP " + r.Host() + r.Pick("", ";received=1.2.3.4", ";rport;ttl=1")
					}
				}
				hs = append(hs, sigHdr{t, name + ": " + val + "\r\n", true})
			}
		}
		for k := len(hs) - 1; k > 0; k-- {
			j := r.N(k + 1)
			hs[k], hs[j] = hs[j], hs[k]
		}
		build := func(list []sigHdr) string {
			var sb strings.Builder
			sb.WriteString(fl)
			for _, h := range list {
				sb.WriteString(h.raw)
			}
			sb.WriteString("\r\n")
			return sb.String()
		}
		filler := func() sigHdr {
			t := []int{14, 14, 9, 11, 12, 13, 7}[r.N(7)]
			v := r.genValue(t, false, method, &MsgSpec{sane: true})
			if t == 7 {
				v = "0"
			}
			return sigHdr{t, r.HdrName(t) + ": " + v + "\r\n", false}
		}
		base := build(hs)
		// variants that must have the same signature
		var variants []string
		var vdesc []string
		{ // fillers inserted
			var l []sigHdr
			for _, h := range hs {
				if r.P(40) {
					l = append(l, filler())
				}
				l = append(l, h)
			}
			l = append(l, filler())
			variants = append(variants, build(l))
			vdesc = append(vdesc, "fillers inserted")
		}
		if len(hs) > 0 { // fingerprinted header repeated later (same type, other value)
			l := append([]sigHdr{}, hs...)
			h := hs[r.N(len(hs))]
			v := r.genValue(h.typ, false, method, &MsgSpec{sane: true})
			if h.typ == 5 {
				v = "SIP/2.0/TCP other;branch=z9hG4bK" + r.Pick("a.b.c", "x_y", "q+r")
			}
			if h.typ != 1 && h.typ != 2 && h.typ != 3 && h.typ != 4 {
				if r.P(60) { // a filler anywhere (the scan only stops early when it has seen no other header)
					fp := r.N(len(l) + 1)
					l = append(l[:fp], append([]sigHdr{filler()}, l[fp:]...)...)
				}
				// the repeat goes anywhere after the first occurrence
				first := 0
				for k, x := range l {
					if x.typ == h.typ {
						first = k
						break
					}
				}
				rp := first + 1 + r.N(len(l)-first)
				rep := sigHdr{h.typ, hdrNames[h.typ][0] + ": " + v + "\r\n", true}
				l = append(l[:rp], append([]sigHdr{rep}, l[rp:]...)...)
				variants = append(variants, build(l))
				vdesc = append(vdesc, fmt.Sprintf("type %d repeated later", h.typ))
			}
		}
		for k, h := range hs { // an older via appended to the first Via header line (comma separated list)
			if h.typ == 5 && !strings.Contains(h.raw, ",") && strings.Contains(h.raw, "branch=") {
				l := append([]sigHdr{}, hs...)
				l[k].raw = strings.TrimSuffix(h.raw, "\r\n") + r.Pick(",", ", ", " ,\r\n ") + "SIP/2.0/TCP older.example.com;branch=z9hG4bK" + r.Pick("o.l-d", "x_1", "p+q") + "\r\n"
				variants = append(variants, build(l))
				vdesc = append(vdesc, "older via appended to the first Via header")
				break
			}
		}
		for k, h := range hs { // the branch parameter NAME of the first Via in another letter case (names are case-insensitive)
			if h.typ == 5 {
				lo := strings.ToLower(h.raw)
				if p := strings.Index(lo, ";branch="); p >= 0 {
					l := append([]sigHdr{}, hs...)
					nm := h.raw[p+1 : p+7]
					alt := strings.ToUpper(nm)
					if alt == nm {
						alt = strings.ToLower(nm)
					}
					if r.P(50) {
						alt = r.ReCase(nm)
					}
					l[k].raw = h.raw[:p+1] + alt + h.raw[p+7:]
					variants = append(variants, build(l))
					vdesc = append(vdesc, "branch parameter name re-cased")
				}
				break
			}
		}
		for k, h := range hs { // the value of another parameter of the first Via changed (only the branch is fingerprinted)
			if h.typ == 5 {
				if loc := viaOtherParamRe.FindStringSubmatchIndex(h.raw); loc != nil {
					l := append([]sigHdr{}, hs...)
					l[k].raw = h.raw[:loc[4]] + r.Pick("q.r-s_9", "10.9.8.7", "zz", "a-b") + h.raw[loc[5]:]
					variants = append(variants, build(l))
					vdesc = append(vdesc, "another parameter value of the first Via changed")
				}
				break
			}
		}
		{ // values of other headers changed
			var l []sigHdr
			l = append(l, filler())
			for _, h := range hs {
				l = append(l, h)
			}
			v1 := build(l)
			l[0] = filler()
			l[0].typ = 14
			l[0].raw = "X-Other: " + r.Alnum(1, 20) + "\r\n"
			_ = v1
			variants = append(variants, build(l))
			vdesc = append(vdesc, "other header value changed")
		}
		hcapBig := 40
		lines := []string{parseSess(fmt.Sprintf("msg %d 4", hcapBig), base, 0, []int{len(base)}, 0, false, "G")}
		for _, v := range variants {
			cuts := r.Cuts(v, len(v))
			lines = append(lines, parseSess(fmt.Sprintf("msg %d %d", 20+r.N(20), r.N(5)), v, 0, cuts, 0, false, "G"))
		}
		// small capacities on the base message
		for _, c := range []int{0, 1, 2, 3, 5} {
			lines = append(lines, parseSess(fmt.Sprintf("msg %d 2", c), base, 0, []int{len(base)}, 0, false, "G"))
		}
		nsmall := 5
		// the same message on an object that parsed another (longer) request before and was reset: a caller-supplied
		// header array keeps its slots across Reset / Init
		nreuse := 0
		if r.P(50) {
			var l []sigHdr
			for k := 0; k < 1+r.N(4); k++ {
				l = append(l, filler())
			}
			for _, t := range []int{5, 10, 6, 3, 4, 1, 2, 8, 5, 10} {
				v := r.genValue(t, false, "INVITE", &MsgSpec{sane: true})
				if t == 5 {
					v = "SIP/2.0/UDP h9;branch=z9hG4bKprev"
				}
				l = append(l, sigHdr{t, hdrNames[t][0] + ": " + v + "\r\n", true})
			}
			prev := "INVITE sip:prev@h SIP/2.0\r\n"
			for _, h := range l {
				prev += h.raw
			}
			prev += "\r\n"
			fin := base
			if r.P(70) {
				fin = variants[0] // with fillers: the scan for fingerprinted headers does not stop early
			}
			cut := len(prev)
			if r.P(25) {
				cut = r.N(len(prev) + 1)
			}
			lines = append(lines, fmt.Sprintf("msg %d %s | B %s | P %d 0 0 | %s | B %s | P %d 0 0 | G", 20+r.N(20), capStr(r, 4), hx(prev), cut, r.Pick("R", "R", "I"), hx(fin), len(fin)))
			nreuse = 1
		}
		nv := len(variants)
		isInvite := method == "INVITE"
		hsCopy := hs
		g.add(Case{Prop: "C19", Desc: "request-variants", Lines: lines, Check: func(out []string) string {
			b := splitOut(out[0])
			if len(b) < 2 || !strings.HasPrefix(b[0], fmt.Sprint(len(base))+",ErrHdrOk") {
				if strings.Contains(out[0], "PANIC") {
					return "panic: " + tailOf(out[0], 60)
				}
				return ""
			}
			sig := b[1]
			if !strings.HasSuffix(sig, "err=ErrHdrOk") {
				return "signature of a fully stored request not produced: " + sig
			}
			// at most eight header entries; rendering well formed
			str := sig[strings.Index(sig, "str=")+4 : strings.Index(sig, " err=")]
			if !sigStringOK(str) {
				return fmt.Sprintf("rendering %q is not well formed", str)
			}
			// expected header id sequence
			var want []string
			seen := map[int]bool{}
			idx := map[int]int{3: 0, 8: 1, 4: 2, 1: 3, 6: 4, 2: 5, 5: 6, 10: 7}
			for _, h := range hsCopy {
				if seen[h.typ] {
					continue
				}
				seen[h.typ] = true
				if h.typ == 8 && !isInvite {
					continue
				}
				id := idx[h.typ]
				if strings.IndexByte(h.raw, ':') == 1 {
					id |= 8
				}
				want = append(want, fmt.Sprint(id))
			}
			hsPart := sig[strings.Index(sig, "hs=[")+4 : strings.Index(sig, "] str=")]
			if hsPart != strings.Join(want, ", ") {
				return fmt.Sprintf("header entries [%s], expected [%s] (order / long-compact form of first occurrences)", hsPart, strings.Join(want, ", "))
			}
			for k := 0; k < nv; k++ {
				v := splitOut(out[1+k])
				if len(v) < 2 {
					return "variant not parsed: " + tailOf(out[1+k], 60)
				}
				if last(v) != sig {
					return fmt.Sprintf("signature changed by %q: %s", vdesc[k], firstDiff(last(v), sig))
				}
			}
			if nreuse == 1 {
				v := last(splitOut(out[len(out)-1]))
				if v != sig {
					return fmt.Sprintf("signature on an object reused after Reset / Init differs from the one on a new object: %s", firstDiff(v, sig))
				}
			}
			for k := 1 + nv; k < 1+nv+nsmall; k++ {
				v := last(splitOut(out[k]))
				if v != sig && !strings.HasSuffix(v, "err=ErrHdrTrunc") {
					return fmt.Sprintf("header array too small: neither the same signature nor a truncated indication: %s", tailOf(v, 80))
				}
			}
			return ""
		}})
		// replies yield no signature
		if r.P(20) {
			rep := "SIP/2.0 " + r.Pick("200", "200", "100", "000", "999", "486") + " OK\r\n" + base[len(fl):]
			g.add(Case{Prop: "C19", Desc: "reply", Lines: []string{parseSess("msg - -", rep, 0, []int{len(rep)}, 0, false, "G")}, Check: func(out []string) string {
				v := splitOut(out[0])
				if strings.HasSuffix(v[0], "ErrHdrOk") && !strings.Contains(last(v), "str= err=ErrHdrEmpty") {
					return "a reply produced a signature: " + last(v)
				}
				return ""
			}})
		}
	}
}

func sigStringOK(s string) bool {
	// hex{1..9} 'I' hex6 'F' hex4 'V' hex4
	i := strings.IndexByte(s, 'I')
	if i < 1 || i > 9 || len(s) != i+1+6+1+4+1+4 {
		return false
	}
	ishex := func(t string) bool {
		for _, c := range []byte(t) {
			if !((c >= '0' && c <= '9') || (c >= 'a' && c <= 'f')) {
				return false
			}
		}
		return true
	}
	return ishex(s[:i]) && ishex(s[i+1:i+7]) && s[i+7] == 'F' && ishex(s[i+8:i+12]) && s[i+12] == 'V' && ishex(s[i+13:])
}
