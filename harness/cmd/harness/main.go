// harness: runs session lines on the real sipsp implementation (copied into
// ../.build/sipsp together with export/zz_verif_exec.go) and generates the
// sessions used by the checks.
package main

import (
	"bufio"
	"fmt"
	"os"
	"runtime"
	"sync"

	"github.com/intuitivelabs/sipsp"
)

func runLines(in *os.File, out *os.File) {
	sc := bufio.NewScanner(in)
	sc.Buffer(make([]byte, 1<<20), 64<<20)
	var lines []string
	for sc.Scan() {
		lines = append(lines, sc.Text())
	}
	res := make([]string, len(lines))
	nw := runtime.NumCPU()
	var wg sync.WaitGroup
	chunk := (len(lines) + nw - 1) / nw
	for w := 0; w < nw; w++ {
		lo, hi := w*chunk, (w+1)*chunk
		if hi > len(lines) {
			hi = len(lines)
		}
		if lo >= hi {
			continue
		}
		wg.Add(1)
		go func(lo, hi int) {
			defer wg.Done()
			for i := lo; i < hi; i++ {
				res[i] = sipsp.VerifRun(lines[i])
			}
		}(lo, hi)
	}
	wg.Wait()
	w := bufio.NewWriterSize(out, 1<<20)
	for _, r := range res {
		w.WriteString(r)
		w.WriteByte('\n')
	}
	w.Flush()
}

func main() {
	if len(os.Args) < 2 {
		fmt.Fprintln(os.Stderr, "usage: harness run|gen ...")
		os.Exit(2)
	}
	switch os.Args[1] {
	case "run":
		runLines(os.Stdin, os.Stdout)
	case "check":
		checkMain(os.Args[2:])
	default:
		fmt.Fprintln(os.Stderr, "unknown command")
		os.Exit(2)
	}
}
