package main

// Cases: session lines + oracles on the implementation's outputs.

import (
	"fmt"
	"regexp"
	"strconv"
	"strings"
)

type Case struct {
	Prop  string
	Desc  string
	Lines []string
	Check func(out []string) string // oracle on the implementation's outputs; "" = holds
}

// ---------------------------------------------------------------- session text

// parseSess builds "<hd> | B <hex> | P c1 start f | [O |] P c2 c f | ... | <tail>"
func parseSess(hd, buf string, start int, cuts []int, flags int, obsEach bool, tail string) string {
	var sb strings.Builder
	sb.WriteString(hd + " | B " + hx(buf))
	for j, c := range cuts {
		o := "c"
		if j == 0 {
			o = strconv.Itoa(start)
		}
		fmt.Fprintf(&sb, " | P %d %s %d", c, o, flags)
		if obsEach {
			sb.WriteString(" | O")
		}
	}
	if tail != "" {
		sb.WriteString(" | " + tail)
	}
	return sb.String()
}

func splitOut(s string) []string { return strings.Split(s, " | ") }

var retRe = regexp.MustCompile(`^(\d+),(?:(\d+),)?([A-Za-z0-9]+)$`)

// parseRet parses "o,ERR" or "o,v,ERR"
func parseRet(s string) (o int, v int, e string, ok bool) {
	m := retRe.FindStringSubmatch(s)
	if m == nil {
		return 0, 0, "", false
	}
	o, _ = strconv.Atoi(m[1])
	if m[2] != "" {
		v, _ = strconv.Atoi(m[2])
	}
	return o, v, m[3], true
}

func definitive(e string) bool { return e != "ErrHdrMoreBytes" }

func isErrVerdict(e string) bool {
	switch e {
	case "ErrHdrOk", "ErrHdrEOH", "ErrHdrEmpty", "ErrHdrMoreBytes", "ErrHdrMoreValues", "NoURIErr":
		return false
	}
	return true
}

// ---------------------------------------------------------------- resume oracle (C01, C02)

// resumeCase: chunked session (obs after every call) vs a fresh one-shot call per prefix.
func resumeCase(prop, hd, buf string, start int, cuts []int, flags int, lastFlags int, desc string) Case {
	var lines []string
	// chunked: allow a different flag set for the last call (no-more-data on the final chunk)
	var sb strings.Builder
	sb.WriteString(hd + " | B " + hx(buf))
	for j, c := range cuts {
		o := "c"
		if j == 0 {
			o = strconv.Itoa(start)
		}
		f := flags
		if j == len(cuts)-1 {
			f = lastFlags
		}
		fmt.Fprintf(&sb, " | P %d %s %d | O", c, o, f)
	}
	lines = append(lines, sb.String())
	for j, c := range cuts {
		f := flags
		if j == len(cuts)-1 {
			f = lastFlags
		}
		lines = append(lines, parseSess(hd, buf, start, []int{c}, f, true, ""))
	}
	threeVal := strings.HasPrefix(hd, "uriparams") || strings.HasPrefix(hd, "urihdrs")
	return Case{Prop: prop, Desc: desc, Lines: lines, Check: func(out []string) string {
		ch := splitOut(out[0])
		sumV := 0
		for j := range cuts {
			one := splitOut(out[1+j])
			if len(ch) < 2*j+2 || len(one) < 2 {
				if strings.Contains(out[0], "PANIC") || strings.Contains(out[1+j], "PANIC") {
					return fmt.Sprintf("panic at step %d: chunked=%q oneshot=%q", j, last(ch), last(one))
				}
				return fmt.Sprintf("short output at step %d", j)
			}
			co, cv, ce, ok1 := parseRet(ch[2*j])
			oo, ov, oe, ok2 := parseRet(one[0])
			if !ok1 || !ok2 {
				return fmt.Sprintf("step %d: unparsable result %q / %q", j, ch[2*j], one[0])
			}
			sumV += cv
			if co != oo || ce != oe {
				return fmt.Sprintf("step %d (prefix %d): resumed call returned %s, fresh one-shot call on the same prefix returned %s", j, cuts[j], ch[2*j], one[0])
			}
			if definitive(oe) {
				if threeVal && sumV != ov {
					return fmt.Sprintf("step %d: per-call counts sum to %d, one-shot count is %d", j, sumV, ov)
				}
				if ch[2*j+1] != one[1] {
					return fmt.Sprintf("step %d (prefix %d, verdict %s): parsed values differ: %s", j, cuts[j], oe, firstDiff(ch[2*j+1], one[1]))
				}
				return ""
			}
		}
		return ""
	}}
}

func last(xs []string) string {
	if len(xs) == 0 {
		return ""
	}
	return xs[len(xs)-1]
}

func firstDiff(a, b string) string {
	as, bs := strings.Split(a, " "), strings.Split(b, " ")
	for i := 0; i < len(as) && i < len(bs); i++ {
		if as[i] != bs[i] {
			lo := i - 2
			if lo < 0 {
				lo = 0
			}
			hi := i + 2
			return fmt.Sprintf("token %d: %q vs %q", i, strings.Join(as[lo:min(hi, len(as))], " "), strings.Join(bs[lo:min(hi, len(bs))], " "))
		}
	}
	return fmt.Sprintf("lengths %d vs %d", len(as), len(bs))
}

func min(a, b int) int {
	if a < b {
		return a
	}
	return b
}

// ---------------------------------------------------------------- stability oracle (C03)

var bodyRe = regexp.MustCompile(`body=(\d+):\d+ buf=\d+ raw=(\d+):\d+`)

func maskBodyExtent(s string) string {
	return bodyRe.ReplaceAllString(s, "body=$1:* buf=* raw=$2:*")
}

func stableCase(prop, hd, b, s string, start, flags int, desc string) Case {
	buf := b + s
	lines := []string{
		parseSess(hd, buf, start, []int{len(b)}, flags, true, ""),
		parseSess(hd, buf, start, []int{len(buf)}, flags, true, ""),
	}
	isMsg := strings.HasPrefix(hd, "msg")
	return Case{Prop: prop, Desc: desc, Lines: lines, Check: func(out []string) string {
		a, c := splitOut(out[0]), splitOut(out[1])
		if len(a) < 2 || len(c) < 2 {
			if strings.Contains(out[0]+out[1], "PANIC") {
				return "panic"
			}
			return "short output"
		}
		_, _, ae, ok := parseRet(a[0])
		if !ok {
			return "unparsable " + a[0]
		}
		if !definitive(ae) {
			return ""
		}
		exempt := isMsg && flags&3 == 0 && strings.Contains(a[1], "clen={ui=0 sv=0:0 pa=0") && ae == "ErrHdrOk"
		if exempt {
			_, _, ce, _ := parseRet(c[0])
			if ce != ae {
				return fmt.Sprintf("verdict %s on b became %s on b++s", ae, ce)
			}
			if maskBodyExtent(a[1]) != maskBodyExtent(c[1]) {
				return "values changed on extension (body extent exempted): " + firstDiff(maskBodyExtent(a[1]), maskBodyExtent(c[1]))
			}
			return ""
		}
		if a[0] != c[0] {
			return fmt.Sprintf("definitive result %s on b (len %d) became %s on b++s (suffix %q)", a[0], len(b), c[0], s)
		}
		if a[1] != c[1] {
			return "values changed on extension: " + firstDiff(a[1], c[1])
		}
		return ""
	}}
}

// ---------------------------------------------------------------- shift oracle (C11)

var offLenRe = regexp.MustCompile(`(\d+):(\d+)`)
var eoRe = regexp.MustCompile(`eo=(\d+)`)
var bufRe = regexp.MustCompile(`buf=(\d+)`)

// unshift maps an output produced at offset k back to offset 0.
func unshift(s string, k int) string {
	s = offLenRe.ReplaceAllStringFunc(s, func(m string) string {
		p := strings.Split(m, ":")
		o, _ := strconv.Atoi(p[0])
		l, _ := strconv.Atoi(p[1])
		if o == 0 && l == 0 {
			return m
		}
		return fmt.Sprintf("%d:%d", o-k, l)
	})
	s = eoRe.ReplaceAllStringFunc(s, func(m string) string {
		o, _ := strconv.Atoi(m[3:])
		if o == 0 {
			return m
		}
		return fmt.Sprintf("eo=%d", o-k)
	})
	s = bufRe.ReplaceAllStringFunc(s, func(m string) string {
		o, _ := strconv.Atoi(m[4:])
		if o == 0 {
			return m
		}
		return fmt.Sprintf("buf=%d", o-k)
	})
	parts := splitOut(s)
	for i, p := range parts {
		if o, v, e, ok := parseRet(p); ok {
			if strings.Count(p, ",") == 2 {
				parts[i] = fmt.Sprintf("%d,%d,%s", o-k, v, e)
			} else {
				parts[i] = fmt.Sprintf("%d,%s", o-k, e)
			}
		}
	}
	return strings.Join(parts, " | ")
}

func shiftCase(prop, hd, text, junk string, cuts []int, flags int, tail string, desc string) Case {
	k := len(junk)
	sc := make([]int, len(cuts))
	for i, c := range cuts {
		sc[i] = c + k
	}
	lines := []string{
		parseSess(hd, text, 0, cuts, flags, true, tail),
		parseSess(hd, junk+text, k, sc, flags, true, tail),
	}
	return Case{Prop: prop, Desc: desc, Lines: lines, Check: func(out []string) string {
		if strings.Contains(out[0], "PANIC") != strings.Contains(out[1], "PANIC") {
			return fmt.Sprintf("panic only at one of the offsets (0 / %d)", k)
		}
		u := unshift(out[1], k)
		if u != out[0] {
			return fmt.Sprintf("result at offset %d is not the result at offset 0 shifted by %d: %s", k, k, firstDiff(u, out[0]))
		}
		return ""
	}}
}

// ---------------------------------------------------------------- reset oracle (C12)

type histStep struct {
	buf   string
	cut   int // parse only this prefix (abandon there); == len(buf) for a complete parse
	flags int
	how   string // "R" or "I"
}

func resetCase(prop, hd string, hist []histStep, final string, fflags int, tail, desc string) Case {
	var sb strings.Builder
	sb.WriteString(hd)
	for _, h := range hist {
		fmt.Fprintf(&sb, " | B %s | P %d 0 %d | %s", hx(h.buf), h.cut, h.flags, h.how)
	}
	fin := fmt.Sprintf(" | B %s | P %d 0 %d | O", hx(final), len(final), fflags)
	if tail != "" {
		fin += " | " + tail
	}
	lines := []string{sb.String() + fin, hd + fin}
	return Case{Prop: prop, Desc: desc, Lines: lines, Check: func(out []string) string {
		if strings.Contains(out[0], "PANIC") {
			return "panic on a reused object: " + tailOf(out[0], 80)
		}
		used, fresh := splitOut(out[0]), splitOut(out[1])
		nf := len(fresh)
		if len(used) < nf {
			return "short output"
		}
		got := used[len(used)-nf:]
		for i := range fresh {
			if got[i] != fresh[i] {
				g, f := got[i], fresh[i]
				// the retained Buf of a reset message is not read by any parser
				if strings.HasPrefix(hd, "msg") {
					g, f = bufRe.ReplaceAllString(g, "buf=*"), bufRe.ReplaceAllString(f, "buf=*")
					if g == f {
						continue
					}
				}
				return fmt.Sprintf("reused object (after %d earlier parses + reset) differs from a new one: %s", len(hist), firstDiff(g, f))
			}
		}
		return ""
	}}
}

func tailOf(s string, n int) string {
	if len(s) <= n {
		return s
	}
	return s[len(s)-n:]
}

// ---------------------------------------------------------------- capacity oracle (C13)

// listItems returns the top-level items of "key=[...]" in s and s with the list replaced by "key=[*]".
func listItems(s, key string) (items []string, masked string) {
	i := strings.Index(s, key+"=[")
	if i < 0 {
		return nil, s
	}
	j := i + len(key) + 2
	depth := 1
	start := j
	lvl := 0
	for p := j; p < len(s); p++ {
		switch s[p] {
		case '[':
			depth++
		case ']':
			depth--
			if depth == 0 {
				if p > start {
					items = append(items, s[start:p])
				}
				return items, s[:i] + key + "=[*]" + s[p+1:]
			}
		case '{':
			lvl++
		case '}':
			lvl--
		case ' ':
			if depth == 1 && lvl == 0 {
				if p > start {
					items = append(items, s[start:p])
				}
				start = p + 1
			}
		}
	}
	return items, s
}

var capMaskRe = regexp.MustCompile(`\b(cap|vno|pno|hno|more)=\d+`)

// capNormalize masks everything that legitimately depends on capacity and returns the stored lists.
func capNormalize(s string) (string, map[string][]string) {
	lists := map[string][]string{}
	for _, key := range []string{"hdrs", "vals", "params"} {
		// there may be several occurrences (contacts vals, pais vals): handle repeatedly
		for n := 0; n < 4; n++ {
			it, m := listItems(s, key)
			if m == s {
				break
			}
			lists[fmt.Sprintf("%s#%d", key, n)] = it
			s = strings.Replace(m, key+"=[*]", key+"=<"+strconv.Itoa(n)+">", 1)
		}
	}
	s = capMaskRe.ReplaceAllString(s, "$1=*")
	return s, lists
}

func isPrefixList(a, b []string) bool {
	if len(a) > len(b) {
		return false
	}
	for i := range a {
		if a[i] != b[i] {
			return false
		}
	}
	return true
}

// capCase: the same session at several capacity settings; hds[len-1] must be the largest.
func capCase(prop string, hds []string, body string, desc string, keepPAI bool) Case {
	var lines []string
	for _, hd := range hds {
		lines = append(lines, hd+body)
	}
	return Case{Prop: prop, Desc: desc, Lines: lines, Check: func(out []string) string {
		// the "more" indication and the number of stored elements follow from the count and the capacity alone
		for k := range out {
			if msg := moreIndication(hds[k], out[k]); msg != "" {
				return msg
			}
		}
		ref := splitOut(out[len(out)-1])
		for k := 0; k < len(out)-1; k++ {
			cur := splitOut(out[k])
			if len(cur) != len(ref) {
				return fmt.Sprintf("capacity setting %q: different number of results (%d vs %d): %s", hds[k], len(cur), len(ref), tailOf(out[k], 60))
			}
			success := false
			for i := range ref {
				if _, _, e, ok := parseRet(ref[i]); ok {
					success = !isErrVerdict(e) && definitive(e)
				} else if !success {
					continue // the property speaks about successfully parsed inputs
				}
				a, la := capNormalize(cur[i])
				b, lb := capNormalize(ref[i])
				if a != b {
					return fmt.Sprintf("capacity setting %q vs %q: %s", hds[k], hds[len(hds)-1], firstDiff(a, b))
				}
				for key, small := range la {
					if keepPAI && strings.HasPrefix(key, "vals#1") {
						continue
					}
					if !isPrefixList(small, lb[key]) {
						return fmt.Sprintf("capacity setting %q: stored %s is not a prefix of what %q stores", hds[k], key, hds[len(hds)-1])
					}
				}
			}
		}
		return ""
	}}
}

// ---------------------------------------------------------------- safety oracle (C04)

var fieldRe = regexp.MustCompile(`(\d+):(\d+)`)

type pcall struct{ blen, start int }

// safetyCase: no panic, offsets sane, fields dereferenceable. calls describes every P op in order
// (buffer length passed and start offset, -1 = continuation).
func safetyCase(prop, line string, calls []pcall, bufLens []int, desc string) Case {
	return Case{Prop: prop, Desc: desc, Lines: []string{line}, Check: func(out []string) string {
		if strings.Contains(out[0], "PANIC") {
			return "panic: " + tailOf(out[0], 60)
		}
		parts := splitOut(out[0])
		ci := 0
		prev := 0
		curLen := 0
		for _, p := range parts {
			if o, _, e, ok := parseRet(p); ok && ci < len(calls) {
				c := calls[ci]
				ci++
				st := c.start
				if st < 0 {
					st = prev
				}
				curLen = c.blen
				if st <= c.blen {
					if o > c.blen {
						return fmt.Sprintf("returned offset %d beyond the buffer (len %d): %s", o, c.blen, p)
					}
					if o < st && !isErrVerdict(e) {
						return fmt.Sprintf("returned offset %d before the start offset %d with non-error verdict %s", o, st, e)
					}
				}
				prev = o
				continue
			}
			// observation: every non-empty field must be inside the buffer of the last call
			if calls == nil {
				continue
			}
			for _, m := range fieldRe.FindAllStringSubmatch(p, -1) {
				o, _ := strconv.Atoi(m[1])
				l, _ := strconv.Atoi(m[2])
				if l > 0 && o+l > curLen {
					return fmt.Sprintf("reported field %s is outside the buffer (len %d)", m[0], curLen)
				}
			}
		}
		return ""
	}}
}

var moreCtRe = regexp.MustCompile(`contacts=\{N=(\d+) HNo=\d+ max=\d+ min=\d+ lh=\S+ vno=(\d+) more=(\d)`)
var morePaRe = regexp.MustCompile(`pais=\{N=(\d+) HNo=\d+ lh=\S+ vno=(\d+) more=(\d)`)
var moreUpRe = regexp.MustCompile(`N=(\d+) types=\d+ pno=(\d+) more=(\d)`)
var moreUhRe = regexp.MustCompile(`N=(\d+) hno=(\d+) more=(\d)`)

// moreIndication: More() <=> N > capacity, and VNo() / PNo() / HNo() = min(N, capacity)
func moreIndication(hd, out string) string {
	f := strings.Fields(strings.SplitN(hd, "|", 2)[0])
	if len(f) == 0 {
		return ""
	}
	chk := func(what string, re *regexp.Regexp, capac int) string {
		for _, m := range re.FindAllStringSubmatch(out, -1) {
			n, _ := strconv.Atoi(m[1])
			st, _ := strconv.Atoi(m[2])
			want := n
			if want > capac {
				want = capac
			}
			if st != want || (m[3] == "1") != (n > capac) {
				return fmt.Sprintf("%s: count %d, capacity %d: stored %d (expected %d), more=%s (expected %v) [%s]", what, n, capac, st, want, m[3], n > capac, hd)
			}
		}
		return ""
	}
	capOf := func(x string, dflt int) int {
		if x == "-" {
			return dflt
		}
		v, _ := strconv.Atoi(x)
		return v
	}
	switch f[0] {
	case "msg":
		if len(f) >= 3 {
			if e := chk("contacts", moreCtRe, capOf(f[2], 10)); e != "" {
				return e
			}
			return chk("identities", morePaRe, 2)
		}
	case "contacts":
		if len(f) >= 2 {
			return chk("contacts", regexp.MustCompile(`^.*?N=(\d+) HNo=\d+ max=\d+ min=\d+ lh=\S+ vno=(\d+) more=(\d)`), capOf(f[1], 0))
		}
	case "uriparams":
		if len(f) >= 2 {
			return chk("URI parameters", moreUpRe, capOf(f[1], 0))
		}
	case "urihdrs":
		if len(f) >= 2 {
			return chk("URI headers", moreUhRe, capOf(f[1], 0))
		}
	}
	return ""
}
