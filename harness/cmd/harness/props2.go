package main

// Reference-based properties: the oracle inspects the implementation through the exported API.

import (
	"strconv"
	"bytes"
	"fmt"
	"math/big"
	"strings"

	"github.com/intuitivelabs/sipsp"
)

func fget(buf []byte, f sipsp.PField) string {
	if int(f.Offs)+int(f.Len) > len(buf) {
		return "<out of range>"
	}
	return string(buf[f.Offs : f.Offs+f.Len])
}
func fend(f sipsp.PField) int { return int(f.Offs) + int(f.Len) }
func inside(f, outer sipsp.PField) bool {
	return f.Len == 0 || (f.Offs >= outer.Offs && fend(f) <= fend(outer))
}
func isLWSb(c byte) bool { return c == ' ' || c == '\t' || c == '\r' || c == '\n' }

func protect(f func() string) (res string) {
	defer func() {
		if r := recover(); r != nil {
			res = fmt.Sprintf("panic: %v", r)
		}
	}()
	return f()
}

func newMsg(hcap, ccap int) *sipsp.PSIPMsg {
	m := &sipsp.PSIPMsg{}
	var h []sipsp.Hdr
	var c []sipsp.PFromBody
	if hcap >= 0 {
		h = make([]sipsp.Hdr, hcap)
	}
	if ccap >= 0 {
		c = make([]sipsp.PFromBody, ccap)
	}
	m.Init(nil, h, c)
	return m
}

func capArg(c int) string {
	if c < 0 {
		return "-"
	}
	return fmt.Sprint(c)
}

// ---------------------------------------------------------------- C05

func checkNested(buf []byte, start, o int, m *sipsp.PSIPMsg) string {
	whole := sipsp.PField{Offs: sipsp.OffsT(start), Len: sipsp.OffsT(o - start)}
	in := func(name string, f sipsp.PField) string {
		if !inside(f, whole) {
			return fmt.Sprintf("%s [%d,+%d) not inside the consumed region [%d,%d)", name, f.Offs, f.Len, start, o)
		}
		return ""
	}
	fl := &m.FL
	for _, x := range []struct {
		n string
		f sipsp.PField
	}{{"Method", fl.Method}, {"URI", fl.URI}, {"Version", fl.Version}, {"StatusCode", fl.StatusCode}, {"Reason", fl.Reason}, {"Body", m.Body}} {
		if e := in("first-line/"+x.n, x.f); e != "" {
			return e
		}
	}
	if fl.Request() {
		if !(fend(fl.Method) <= int(fl.URI.Offs) && fend(fl.URI) <= int(fl.Version.Offs)) {
			return "request-line fields out of order"
		}
	} else {
		if !(fend(fl.Version) <= int(fl.StatusCode.Offs) && fend(fl.StatusCode) <= int(fl.Reason.Offs)) {
			return "status-line fields out of order"
		}
	}
	flEnd := fend(fl.Version)
	if !fl.Request() {
		flEnd = fend(fl.Reason)
	}
	n := m.HL.N
	if n > len(m.HL.Hdrs) {
		n = len(m.HL.Hdrs)
	}
	prevEnd := flEnd
	for i := 0; i < n; i++ {
		h := &m.HL.Hdrs[i]
		if e := in(fmt.Sprintf("hdr #%d name", i), h.Name); e != "" {
			return e
		}
		if e := in(fmt.Sprintf("hdr #%d value", i), h.Val); e != "" {
			return e
		}
		if int(h.Name.Offs) < prevEnd {
			return fmt.Sprintf("hdr #%d (%q) name at %d overlaps the previous header/first line ending at %d", i, fget(buf, h.Name), h.Name.Offs, prevEnd)
		}
		if h.Name.Len == 0 {
			return fmt.Sprintf("hdr #%d has an empty name", i)
		}
		if h.Val.Len > 0 {
			if int(h.Val.Offs) < fend(h.Name)+1 {
				return fmt.Sprintf("hdr #%d (%q): value [%d,+%d) not after its own name and colon", i, fget(buf, h.Name), h.Val.Offs, h.Val.Len)
			}
			v := buf[h.Val.Offs:fend(h.Val)]
			if isLWSb(v[0]) || isLWSb(v[len(v)-1]) {
				return fmt.Sprintf("hdr #%d (%q): value %q is not trimmed", i, fget(buf, h.Name), v)
			}
			prevEnd = fend(h.Val)
		} else {
			prevEnd = fend(h.Name)
		}
		if i+1 < n && m.HL.Hdrs[i+1].Name.Len > 0 && prevEnd > int(m.HL.Hdrs[i+1].Name.Offs) {
			return fmt.Sprintf("hdr #%d (%q) value [%d,+%d) runs into the next header at %d (not inside its own line)", i, fget(buf, h.Name), h.Val.Offs, h.Val.Len, m.HL.Hdrs[i+1].Name.Offs)
		}
	}
	// a header value lies inside its own logical line: every line end inside it is followed by SP / HT (a fold)
	ownLine := func(what string, h *sipsp.Hdr) string {
		if h.Val.Len == 0 {
			return ""
		}
		if fend(h.Val) > len(buf) {
			return what + ": value outside the buffer"
		}
		v := buf[h.Val.Offs:fend(h.Val)]
		for k := 0; k < len(v); k++ {
			if v[k] == '\r' || v[k] == '\n' {
				j := k + 1
				if v[k] == '\r' && j < len(v) && v[j] == '\n' {
					j++
				}
				if j < len(v) && v[j] != ' ' && v[j] != '\t' {
					return fmt.Sprintf("%s (%q): value %q runs over a line end into another line", what, fget(buf, h.Name), v)
				}
				k = j - 1
			}
		}
		return ""
	}
	for i := 0; i < n; i++ {
		if e := ownLine(fmt.Sprintf("hdr #%d", i), &m.HL.Hdrs[i]); e != "" {
			return e
		}
	}
	// the first-of-type shortcuts report fields too
	for t := sipsp.HdrT(1); t <= 13; t++ {
		h := m.HL.GetHdr(t)
		if h == nil || h.Missing() {
			continue
		}
		what := fmt.Sprintf("first header of type %d", t)
		if e := in(what+" name", h.Name); e != "" {
			return e
		}
		if e := in(what+" value", h.Val); e != "" {
			return e
		}
		if h.Val.Len > 0 && int(h.Val.Offs) < fend(h.Name)+1 {
			return fmt.Sprintf("%s (%q): value [%d,+%d) not after its own name and colon", what, fget(buf, h.Name), h.Val.Offs, h.Val.Len)
		}
		if e := ownLine(what, h); e != "" {
			return e
		}
	}
	if int(m.Body.Offs) < prevEnd {
		return fmt.Sprintf("body starts at %d, before the end of the headers (%d)", m.Body.Offs, prevEnd)
	}
	if fend(m.Body) != o {
		return fmt.Sprintf("body ends at %d, returned offset is %d", fend(m.Body), o)
	}
	if !bytes.Equal(m.RawMsg, buf[start:o]) {
		return fmt.Sprintf("RawMsg (len %d) is not buf[%d:%d]", len(m.RawMsg), start, o)
	}
	nest := func(what string, b *sipsp.PFromBody) string {
		for _, x := range []struct {
			n string
			f sipsp.PField
		}{{"Name", b.Name}, {"URI", b.URI}, {"Params", b.Params}} {
			if !inside(x.f, b.V) {
				return fmt.Sprintf("%s.%s [%d,+%d) not inside value [%d,+%d)", what, x.n, x.f.Offs, x.f.Len, b.V.Offs, b.V.Len)
			}
		}
		if !inside(b.Tag, b.Params) {
			return fmt.Sprintf("%s.Tag [%d,+%d) not inside Params [%d,+%d)", what, b.Tag.Offs, b.Tag.Len, b.Params.Offs, b.Params.Len)
		}
		return in(what+".V", b.V)
	}
	if m.PV.From.Parsed() {
		if e := nest("From", &m.PV.From); e != "" {
			return e
		}
		if h := m.HL.GetHdr(sipsp.HdrFrom); h != nil && !h.Missing() && h.Val != m.PV.From.V {
			return "From value is not the value of the first From header"
		}
	}
	if m.PV.To.Parsed() {
		if e := nest("To", &m.PV.To); e != "" {
			return e
		}
	}
	if m.PV.CSeq.Parsed() {
		c := &m.PV.CSeq
		if !inside(c.CSeq, c.V) || !inside(c.Method, c.V) {
			return "CSeq number/method not inside the CSeq value"
		}
		if e := in("CSeq.V", c.V); e != "" {
			return e
		}
	}
	if m.PV.Callid.Parsed() {
		if e := in("Call-ID", m.PV.Callid.CallID); e != "" {
			return e
		}
	}
	// contact / PAI values: inside the value of a stored header of that type
	chk := func(what string, t sipsp.HdrT, b *sipsp.PFromBody) string {
		if e := nest(what, b); e != "" {
			return e
		}
		if m.HL.N <= len(m.HL.Hdrs) {
			ok := false
			for i := 0; i < n; i++ {
				if m.HL.Hdrs[i].Type == t && inside(b.V, m.HL.Hdrs[i].Val) {
					ok = true
				}
			}
			if !ok {
				return fmt.Sprintf("%s value [%d,+%d) is not inside the value of any stored header of its type", what, b.V.Offs, b.V.Len)
			}
		}
		return ""
	}
	for k := 0; k < m.PV.Contacts.VNo(); k++ {
		if e := chk(fmt.Sprintf("Contact[%d]", k), sipsp.HdrContact, &m.PV.Contacts.Vals[k]); e != "" {
			return e
		}
	}
	for k := 0; k < m.PV.PAIs.VNo(); k++ {
		if e := chk(fmt.Sprintf("PAI[%d]", k), sipsp.HdrPAI, &m.PV.PAIs.Vals[k]); e != "" {
			return e
		}
	}
	return ""
}

func (g *Gen) genC05() {
	// the bounded-exhaustive message texts under the containment oracle (one call)
	for _, s := range exhSpecs(0, g.tier == "thorough", "msg") {
		f := strings.Fields(s.hd)
		if f[0] != "msg" {
			continue
		}
		capOf := func(x string) int {
			if x == "-" {
				return -1
			}
			v, _ := strconv.Atoi(x)
			return v
		}
		hcap, ccap := capOf(f[1]), capOf(f[2])
		hd := s.hd
		s.each(func(text string) {
			bb := []byte(text)
			g.add(Case{Prop: "C05", Desc: "exh-msg-nested", Lines: []string{parseSess(hd, text, 0, []int{len(text)}, 0, true, "")}, Check: func(out []string) string {
				return protect(func() string {
					m := newMsg(hcap, ccap)
					o, err := sipsp.ParseSIPMsg(bb, 0, m, 0)
					if err != 0 {
						return ""
					}
					return checkNested(bb, 0, o, m)
				})
			}})
		})
	}
	r := g.r
	n := g.budget(2500, 80000)
	for i := 0; i < n; i++ {
		o := MsgOpts{LWS: r.P(70), MixedEOL: r.P(35), Body: -1, CLen: -2, Reply: -1}
		ms := r.Msg(o)
		// repeated Contact / PAI / From headers
		text := ms.Text
		kind := "msg-valid"
		if r.P(50) {
			ins := ""
			for k := 0; k < 1+r.N(3); k++ {
				t := []int{8, 8, 13, 1, 2, 14, 9}[r.N(7)]
				ins += r.HdrName(t) + ":" + r.LWS0() + r.genValue(t, o.LWS, ms.Method, nil) + r.Pick("", " ") + "\r\n"
			}
			p := len(ms.FLine)
			if r.P(60) && len(ms.Hdrs) > 0 {
				// after a random header
				k := r.N(len(ms.Hdrs))
				for j := 0; j <= k; j++ {
					p += len(ms.Hdrs[j].Raw)
				}
			}
			text = text[:p] + ins + text[p:]
			kind = "msg-repeated-hdrs"
		}
		hcap, ccap := r.N(16)-1, r.N(7)-1
		flags := r.N(8)
		start := 0
		buf := text
		if r.P(20) {
			j := r.RandBytes("", 1, 30)
			buf, start = j+text, len(j)
		}
		cuts := r.Cuts(text, len(text))
		for k := range cuts {
			cuts[k] += start
		}
		line := parseSess("msg "+capArg(hcap)+" "+capArg(ccap), buf, start, cuts, flags, false, "O")
		// the object may have been used before: an earlier (longer or shorter) message, complete or abandoned, then Reset
		var prev []byte
		prevCut := 0
		if r.P(30) {
			pm := r.Msg(MsgOpts{LWS: r.P(50), Body: -1, CLen: -2, Reply: -1})
			prev = []byte(pm.Text)
			prevCut = len(prev)
			if r.P(40) {
				prevCut = r.N(len(prev) + 1)
			}
			line = fmt.Sprintf("msg %s %s | B %s | P %d 0 0 | R", capArg(hcap), capArg(ccap), hx(pm.Text), prevCut) + strings.TrimPrefix(line, "msg "+capArg(hcap)+" "+capArg(ccap))
			kind += "-reused"
		}
		bb := []byte(buf)
		g.add(Case{Prop: "C05", Desc: kind, Lines: []string{line}, Check: func(out []string) string {
			return protect(func() string {
				m := newMsg(hcap, ccap)
				if prev != nil {
					sipsp.ParseSIPMsg(prev[:prevCut], 0, m, 0)
					m.Reset()
				}
				var o int
				var err sipsp.ErrorHdr
				off := start
				for _, c := range cuts {
					o, err = sipsp.ParseSIPMsg(bb[:c], off, m, uint8(flags))
					off = o
					if err != sipsp.ErrHdrMoreBytes {
						break
					}
				}
				if err != 0 {
					return ""
				}
				return checkNested(bb, start, o, m)
			})
		}})
	}
}

// ---------------------------------------------------------------- C06

func (g *Gen) genC06() {
	r := g.r
	n := g.budget(2500, 80000)
	type one struct {
		text   string
		hdrEnd int
		clen   int
	}
	mk := func(bodyAvail int, clenMode int) one {
		// clenMode: 0 none, 1 equal, 2 smaller, 3 larger
		ms := r.Msg(MsgOpts{LWS: r.P(40), MixedEOL: r.P(30), Body: bodyAvail, CLen: -1, Reply: -1, Sane: true})
		// make sure there is no Content-Length among the random extras
		for _, h := range ms.Hdrs {
			if h.Type == 7 {
				return one{"", 0, 0}
			}
		}
		clen := -1
		switch clenMode {
		case 1:
			clen = bodyAvail
		case 2:
			clen = r.N(bodyAvail + 1)
		case 3:
			clen = bodyAvail + 1 + r.N(50)
		case 4: // far larger than what is there: congruent to an available length modulo 2^16, up to the 2^24 limit
			clen = []int{1, 1, 2, 3, 16, 255}[r.N(6)]*65536 + r.N(bodyAvail+1)
			if r.P(10) {
				clen = 16777216
			}
		}
		text := ms.Text
		hdrEnd := ms.HdrEnd
		if clen >= 0 {
			h := r.HdrName(7) + ":" + r.Pick("", " ") + fmt.Sprint(clen) + "\r\n"
			p := len(ms.FLine)
			k := r.N(len(ms.Hdrs) + 1)
			for j := 0; j < k; j++ {
				p += len(ms.Hdrs[j].Raw)
			}
			text = text[:p] + h + text[p:]
			hdrEnd += len(h)
		}
		return one{text, hdrEnd, clen}
	}
	for i := 0; i < n; i++ {
		avail := []int{0, 0, 1, 2, 7, 30, 200}[r.N(7)]
		m1 := mk(avail, r.N(5))
		if m1.text == "" {
			continue
		}
		flags := r.N(8)
		hcap, ccap := r.N(16)-1, r.N(5)-1
		text := m1.text
		h, cl := m1.hdrEnd, m1.clen
		line := parseSess("msg "+capArg(hcap)+" "+capArg(ccap), text, 0, []int{len(text)}, flags, false, "O")
		g.add(Case{Prop: "C06", Desc: fmt.Sprintf("framing flags=%d clen=%v", flags, map[bool]string{true: "present", false: "absent"}[cl >= 0]), Lines: []string{line}, Check: func(out []string) string {
			return protect(func() string {
				m := newMsg(hcap, ccap)
				bb := []byte(text)
				o, err := sipsp.ParseSIPMsg(bb, 0, m, uint8(flags))
				skip, req, nomore := flags&1 != 0, flags&2 != 0, flags&4 != 0
				var eo int
				var ee sipsp.ErrorHdr
				bodyS, bodyE := h, h
				switch {
				case skip && req && cl < 0:
					eo, ee = h, sipsp.ErrHdrNoCLen
				case skip:
					eo, ee = h, 0
				case cl >= 0 && h+cl <= len(bb):
					eo, ee, bodyE = h+cl, 0, h+cl
				case cl >= 0 && nomore:
					eo, ee, bodyE = len(bb), 0, len(bb)
				case cl >= 0:
					eo, ee = h, sipsp.ErrHdrMoreBytes
				case req:
					eo, ee = h, 0
				default:
					eo, ee, bodyE = len(bb), 0, len(bb)
				}
				if err != ee || o != eo {
					return fmt.Sprintf("flags=%d Content-Length=%d available=%d: got (%d,%v) expected (%d,%v)", flags, cl, len(bb)-h, o, err, eo, ee)
				}
				if ee == 0 && (int(m.Body.Offs) != bodyS || fend(m.Body) != bodyE) {
					return fmt.Sprintf("flags=%d Content-Length=%d: body [%d,%d) expected [%d,%d)", flags, cl, m.Body.Offs, fend(m.Body), bodyS, bodyE)
				}
				return ""
			})
		}})
	}
	// pipelined messages: each framing-definite
	p := g.budget(800, 30000)
	for i := 0; i < p; i++ {
		k := 1 + r.N(4)
		flags := []int{0, 2, 1, 3}[r.N(4)]
		var parts []one
		for len(parts) < k {
			avail := []int{0, 0, 3, 20}[r.N(4)]
			mode := 1
			if flags&2 != 0 && r.P(40) {
				mode = 0
				if flags&1 == 0 {
					avail = 0
				}
			}
			if flags == 1 {
				avail = 0 // skip-body returns the body start: the next message must start there
			}
			if flags == 3 {
				avail = 0
				mode = 1
			}
			m := mk(avail, mode)
			if m.text != "" {
				parts = append(parts, m)
			}
		}
		all := ""
		for _, x := range parts {
			all += x.text
		}
		hcap, ccap := r.N(14)-1, r.N(5)-1
		var sb strings.Builder
		fmt.Fprintf(&sb, "msg %s %s | B %s", capArg(hcap), capArg(ccap), hx(all))
		for j := range parts {
			o := "c"
			if j == 0 {
				o = "0"
			}
			fmt.Fprintf(&sb, " | P %d %s %d | O | R", len(all), o, flags)
		}
		lines := []string{sb.String()}
		for _, x := range parts {
			lines = append(lines, parseSess("msg "+capArg(hcap)+" "+capArg(ccap), x.text, 0, []int{len(x.text)}, flags, false, "O"))
		}
		lens := make([]int, len(parts))
		for j, x := range parts {
			lens[j] = len(x.text)
		}
		g.add(Case{Prop: "C06", Desc: fmt.Sprintf("pipeline k=%d flags=%d", k, flags), Lines: lines, Check: func(out []string) string {
			pp := splitOut(out[0])
			base := 0
			for j := range lens {
				alone := splitOut(out[1+j])
				if len(pp) < 2*j+2 || len(alone) < 2 {
					return "panic or short output in the pipeline: " + tailOf(out[0], 50)
				}
				ao, _, ae, _ := parseRet(alone[0])
				if ae != "ErrHdrOk" || ao != lens[j] {
					return "" // not framing definite alone (should not happen)
				}
				got := unshift(pp[2*j]+" | "+pp[2*j+1], base)
				want := alone[0] + " | " + alone[1]
				// the Buf extent of the shifted parse covers the earlier messages too: buf= was unshifted
				if got != want {
					return fmt.Sprintf("message %d of %d parsed from offset %d differs from the same message parsed alone: %s", j+1, len(lens), base, firstDiff(got, want))
				}
				base += lens[j]
			}
			return ""
		}})
	}
}

// ---------------------------------------------------------------- C16 (reference table)

var refHdrTable = map[string]int{
	"from": 1, "f": 1, "to": 2, "t": 2, "call-id": 3, "i": 3, "cseq": 4, "via": 5, "v": 5, "max-forwards": 6,
	"content-length": 7, "l": 7, "contact": 8, "m": 8, "expires": 9, "user-agent": 10, "record-route": 11,
	"route": 12, "p-asserted-identity": 13,
}

func asciiLower(s string) string {
	b := []byte(s)
	for i, c := range b {
		if c >= 'A' && c <= 'Z' {
			b[i] = c + 32
		}
	}
	return string(b)
}

func refHdrType(name string) int {
	if t, ok := refHdrTable[asciiLower(name)]; ok {
		return t
	}
	return 14
}

var refMethods = map[string]int{"REGISTER": 1, "INVITE": 2, "ACK": 3, "BYE": 4, "PRACK": 5, "CANCEL": 6, "OPTIONS": 7,
	"SUBSCRIBE": 8, "NOTIFY": 9, "UPDATE": 10, "INFO": 11, "REFER": 12, "PUBLISH": 13, "MESSAGE": 14}

func refMethodNo(name string) int {
	if t, ok := refMethods[name]; ok {
		return t
	}
	return 15
}

func (g *Gen) genC16() {
	r := g.r
	addH := func(name, kind string) {
		g.add(Case{Prop: "C16", Desc: kind, Lines: []string{"hdrtype " + hx(name)}, Check: func(out []string) string {
			if out[0] != fmt.Sprint(refHdrType(name)) {
				return fmt.Sprintf("GetHdrType(%q) = %s, the table says %d", name, out[0], refHdrType(name))
			}
			return ""
		}})
	}
	addM := func(name, kind string) {
		g.add(Case{Prop: "C16", Desc: kind, Lines: []string{"methodno " + hx(name)}, Check: func(out []string) string {
			if out[0] != fmt.Sprint(refMethodNo(name)) {
				return fmt.Sprintf("GetMethodNo(%q) = %s, the table says %d", name, out[0], refMethodNo(name))
			}
			return ""
		}})
	}
	var hnames, mnames []string
	for k := range refHdrTable {
		hnames = append(hnames, k)
	}
	sortStrings(hnames)
	for k := range refMethods {
		mnames = append(mnames, k)
	}
	sortStrings(mnames)
	// all case variants of short names, sampled for long ones
	for _, nm := range hnames {
		lim := 1 << uint(len(nm))
		cnt := lim
		if cnt > g.budget(64, 4096) {
			cnt = g.budget(64, 4096)
		}
		for k := 0; k < cnt; k++ {
			mask := k
			if cnt < lim {
				mask = r.N(lim)
			}
			b := []byte(nm)
			for i := range b {
				if mask&(1<<uint(i)) != 0 && b[i] >= 'a' && b[i] <= 'z' {
					b[i] -= 32
				}
			}
			addH(string(b), "hdr-case-variant")
		}
	}
	for _, nm := range mnames {
		addM(nm, "method-exact")
		addM(asciiLower(nm), "method-lower")
		addM(r.ReCase(nm), "method-recased")
	}
	// very long names that START with a table name: lengths len(name) + 255 / 256 / 257 / 512 / 65536-ish (a length kept in
	// 8 or 16 bits, a compare bounded by the table entry) — still 'other'
	for _, nm := range hnames {
		for _, extra := range []int{255, 256, 257, 512, 768, 65280} {
			addH(r.ReCase(nm)+strings.Repeat(r.Pick("x", "-", "a"), extra), "hdr-long-prefixed")
		}
	}
	for _, nm := range mnames {
		for _, extra := range []int{256, 512} {
			addM(nm+strings.Repeat("X", extra), "method-long-prefixed")
		}
	}
	// all strings of length 0..2, length 3 over a reduced alphabet
	addH("", "hdr-short")
	addM("", "method-short")
	for a := 0; a < 256; a++ {
		addH(string([]byte{byte(a)}), "hdr-short")
		addM(string([]byte{byte(a)}), "method-short")
	}
	alpha2 := "ftivlmFTIVLM-cC@`[{\x00\x7f\xe6aA kK"
	for _, a := range []byte(alpha2) {
		for _, b := range []byte(alpha2) {
			addH(string([]byte{a, b}), "hdr-short")
			addM(string([]byte{a, b}), "method-short")
			if g.tier == "thorough" {
				for _, c := range []byte(alpha2) {
					addH(string([]byte{a, b, c}), "hdr-short")
				}
			}
		}
	}
	// one-edit neighbours
	edits := func(nm string) []string {
		var out []string
		ab := "abcdefghijklmnopqrstuvwxyzABCDEFGHIJKLMNOPQRSTUVWXYZ-_ :@`[{0"
		for i := 0; i <= len(nm); i++ {
			for _, c := range []byte(ab) {
				out = append(out, nm[:i]+string(c)+nm[i:])
				if i < len(nm) {
					out = append(out, nm[:i]+string(c)+nm[i+1:])
				}
			}
			if i < len(nm) {
				out = append(out, nm[:i]+nm[i+1:])
			}
			if i+1 < len(nm) {
				out = append(out, nm[:i]+string(nm[i+1])+string(nm[i])+nm[i+2:])
			}
		}
		return out
	}
	for _, nm := range hnames {
		es := edits(nm)
		for k, e := range es {
			if g.tier == "thorough" || k%4 == i4(r) {
				addH(e, "hdr-one-edit")
			}
		}
		// table name + 4k more bytes (same hash bucket)
		for k := 1; k <= 3; k++ {
			addH(nm+r.Alnum(4*k, 4*k), "hdr-extended")
			addH(nm+"-"+r.Alnum(4*k-1, 4*k-1), "hdr-extended")
		}
	}
	for _, nm := range mnames {
		es := edits(nm)
		for k, e := range es {
			if g.tier == "thorough" || k%4 == i4(r) {
				addM(e, "method-one-edit")
			}
		}
		for k := 1; k <= 2; k++ {
			addM(nm+r.Alnum(4*k, 4*k), "method-extended")
			// same first-char hash, different first char
			b := []byte(nm)
			b[0] ^= 0x08 << uint(r.N(3))
			addM(string(b), "method-first-char")
			b = []byte(nm)
			b[0] = byte(int(b[0])&7 | r.N(32)<<3)
			addM(string(b), "method-first-char")
		}
	}
	n := g.budget(2000, 200000)
	for i := 0; i < n; i++ {
		addH(r.RandBytes("", 1, 24), "hdr-random")
		addH(r.Alnum(1, 20), "hdr-random")
		addM(r.RandBytes("ABCDEFGHIJKLMNOPQRSTUVWXYZ", 2, 10), "method-random")
	}
	// round trip name <-> number
	for m := 0; m < 256; m++ {
		mm := m
		g.add(Case{Prop: "C16", Desc: "method-roundtrip", Lines: []string{fmt.Sprintf("methodname %d", m)}, Check: func(out []string) string {
			if mm >= 1 && mm <= 14 {
				if refMethodNo(out[0]) != mm {
					return fmt.Sprintf("SIPMethod(%d).Name() = %q does not map back", mm, out[0])
				}
				if int(sipsp.GetMethodNo([]byte(out[0]))) != mm {
					return fmt.Sprintf("GetMethodNo(Name(%d)) != %d", mm, mm)
				}
			}
			return ""
		}})
	}
	// the header parser assigns exactly this classification (also for repeated headers)
	p := g.budget(1500, 50000)
	for i := 0; i < p; i++ {
		var name string
		switch r.N(4) {
		case 0:
			name = r.ReCase(hnames[r.N(len(hnames))])
		case 1:
			name = hnames[r.N(len(hnames))] + r.Alnum(1, 8)
		case 2:
			name = r.Alnum(1, 14)
		default:
			es := edits(hnames[r.N(len(hnames))])
			name = es[r.N(len(es))]
		}
		if strings.ContainsAny(name, " \t\r\n:") || name == "" {
			continue
		}
		t := refHdrType(name)
		val := r.genValue(t, false, "INVITE", nil)
		if t == 7 {
			val = "5"
		}
		rep := ""
		if r.P(40) { // a repeated header of the same name first
			rep = name + ": " + val + "\r\n"
		}
		blk := rep + name + r.Pick("", " ") + ":" + r.Pick("", " ") + val + "\r\n\r\n"
		hb := r.N(2)
		line := parseSess(fmt.Sprintf("headers 4 %d 2", hb), blk, 0, r.Cuts(blk, len(blk)), 0, false, "O")
		nrep := 0
		if rep != "" {
			nrep = 1
		}
		g.add(Case{Prop: "C16", Desc: "hdrline-assigns-type", Lines: []string{line}, Check: func(out []string) string {
			return protect(func() string {
				var hl sipsp.HdrLst
				hl.Hdrs = make([]sipsp.Hdr, 4)
				var pv sipsp.PHdrVals
				var hbi sipsp.PHBodies
				if hb == 1 {
					pv.Contacts.Init(make([]sipsp.PFromBody, 2))
					hbi = &pv
				}
				_, err := sipsp.ParseHeaders([]byte(blk), 0, &hl, hbi)
				if err != 0 {
					return "" // value not acceptable for this header type: nothing to compare
				}
				if hl.N != nrep+1 {
					return fmt.Sprintf("header count %d, expected %d", hl.N, nrep+1)
				}
				for k := 0; k < hl.N; k++ {
					if int(hl.Hdrs[k].Type) != t {
						return fmt.Sprintf("header %q (#%d) got type %d, GetHdrType says %d", name, k, hl.Hdrs[k].Type, t)
					}
				}
				return ""
			})
		}})
	}
	// every byte value in every position of every table name (a compare that is too lenient for one byte value)
	for _, nm := range hnames {
		for i := 0; i < len(nm); i++ {
			for c := 0; c < 256; c++ {
				b := []byte(nm)
				if r.P(50) {
					b = []byte(r.ReCase(nm))
				}
				b[i] = byte(c)
				addH(string(b), "hdr-byte-subst")
			}
		}
	}
	for _, nm := range mnames {
		for i := 0; i < len(nm); i++ {
			for c := 0; c < 256; c++ {
				b := []byte(nm)
				b[i] = byte(c)
				addM(string(b), "method-byte-subst")
			}
		}
	}
	// the parser assigns the classification also on a header / header list object that was used before
	// (parse, Reset, parse again; capacities small enough that the spare header is used too)
	q := g.budget(1000, 30000)
	for i := 0; i < q; i++ {
		mk := func() (string, []string) {
			var blk string
			var names []string
			for k := 0; k < 1+r.N(4); k++ {
				var name string
				switch r.N(3) {
				case 0:
					name = r.ReCase(hnames[r.N(len(hnames))])
				case 1:
					name = r.Alnum(1, 10)
				default:
					name = []string{"Via", "Max-Forwards", "User-Agent", "Route", "Record-Route", "X-Foo", "Subject", "v", "s"}[r.N(9)]
				}
				t := refHdrType(name)
				if t == 1 || t == 2 || t == 3 || t == 4 || t == 7 || t == 8 || t == 13 || t == 14 {
					// typed values are not the point here: generic kinds only
					name = "X" + name
				}
				names = append(names, name)
				blk += name + r.Pick("", " ", "\t", " \t") + ":" + r.Pick("", " ") + r.Pick("", "x", "70", "a b") + "\r\n"
			}
			return blk + "\r\n", names
		}
		blk1, _ := mk()
		blk2, names2 := mk()
		hcap := r.N(4)
		how := r.Pick("R", "R", "I")
		cut1 := len(blk1)
		if r.P(30) {
			cut1 = r.N(len(blk1) + 1)
		}
		line := fmt.Sprintf("headers %d 0 0 | B %s | P %d 0 0 | %s | B %s | P %d 0 0 | O", hcap, hx(blk1), cut1, how, hx(blk2), len(blk2))
		g.add(Case{Prop: "C16", Desc: "reused-list-assigns-type", Lines: []string{line}, Check: func(out []string) string {
			return protect(func() string {
				var hl sipsp.HdrLst
				hl.Hdrs = make([]sipsp.Hdr, hcap)
				sipsp.ParseHeaders([]byte(blk1)[:cut1], 0, &hl, nil)
				hl.Reset()
				_, err := sipsp.ParseHeaders([]byte(blk2), 0, &hl, nil)
				if err != 0 {
					return fmt.Sprintf("reused header list: block %q not accepted (%v)", blk2, err)
				}
				var want sipsp.HdrFlags
				for k, nm := range names2 {
					t := refHdrType(nm)
					want |= 1 << uint(t)
					if k < hcap && int(hl.Hdrs[k].Type) != t {
						return fmt.Sprintf("reused header list: header %q (#%d) got type %d, the table says %d", nm, k, hl.Hdrs[k].Type, t)
					}
				}
				if hl.PFlags != want {
					return fmt.Sprintf("reused header list: type flags %#x, the names %q give %#x", hl.PFlags, names2, want)
				}
				return ""
			})
		}})
	}
}

func i4(r *Rng) int { return r.N(4) }

func sortStrings(xs []string) {
	for i := 1; i < len(xs); i++ {
		for j := i; j > 0 && xs[j] < xs[j-1]; j-- {
			xs[j], xs[j-1] = xs[j-1], xs[j]
		}
	}
}

// ---------------------------------------------------------------- C20 (reference matcher)

func refGroup(s string, p int) (n int, ok bool) { // longest 1-3 digit run at p with value <= 255? -> all lengths tried by caller
	return 0, false
}

// refIP4At: does s[p:p+l] match g.g.g.g with 1-3 digit groups each <= 255 ?
func refIP4At(s string, p, l int) ([4]byte, bool) {
	var ip [4]byte
	if p+l > len(s) {
		return ip, false
	}
	parts := strings.Split(s[p:p+l], ".")
	if len(parts) != 4 {
		return ip, false
	}
	for i, g := range parts {
		if len(g) < 1 || len(g) > 3 {
			return ip, false
		}
		v := 0
		for _, c := range []byte(g) {
			if c < '0' || c > '9' {
				return ip, false
			}
			v = v*10 + int(c-'0')
		}
		if v > 255 {
			return ip, false
		}
		ip[i] = byte(v)
	}
	return ip, true
}

func refContainsIP4(s string) bool {
	for p := 0; p < len(s); p++ {
		for l := 7; l <= 15; l++ {
			if _, ok := refIP4At(s, p, l); ok {
				return true
			}
		}
	}
	return false
}

// refIP4Prefix: the longest prefix of s that is "three whole groups, dots, then a maximal 4th group"
// following the property: starts with a group sequence, stops at the first byte that cannot extend it.
func refIP4Prefix(s string) (ok bool, end int, ip [4]byte, follow string) {
	p := 0
	for gi := 0; gi < 4; gi++ {
		st := p
		v := 0
		for p < len(s) && s[p] >= '0' && s[p] <= '9' && p-st < 3 && v*10+int(s[p]-'0') <= 255 {
			v = v*10 + int(s[p]-'0')
			p++
		}
		if p == st {
			return false, p, ip, ""
		}
		ip[gi] = byte(v)
		if gi < 3 {
			// a group of the first three must be whole: followed by '.'
			if p >= len(s) || s[p] != '.' {
				return false, p, ip, ""
			}
			p++
		}
	}
	switch {
	case p >= len(s):
		follow = "end"
	case s[p] >= '0' && s[p] <= '9':
		follow = "digit"
	default:
		follow = "other"
	}
	return true, p, ip, follow
}

func (g *Gen) c20case(s string, kind string) {
	lines := []string{"containsip4 " + hx(s), "ip4prefix " + hx(s), "callidsig " + hx(s)}
	g.add(Case{Prop: "C20", Desc: kind, Lines: lines, Check: func(out []string) string {
		return protect(func() string {
			dst := make([]byte, 4)
			ok, o, l := sipsp.ContainsIP4([]byte(s), dst)
			ref := refContainsIP4(s)
			if ok != ref {
				return fmt.Sprintf("ContainsIP4(%q) = %v, but the text does%s contain a dotted quad", s, ok, map[bool]string{true: "", false: " not"}[ref])
			}
			if ok {
				ip, m := refIP4At(s, o, l)
				if !m {
					return fmt.Sprintf("ContainsIP4(%q) reports span [%d,+%d) = %q which is not a dotted quad", s, o, l, s[o:min(o+l, len(s))])
				}
				if !bytes.Equal(ip[:], dst) {
					return fmt.Sprintf("ContainsIP4(%q): address bytes %v, span says %v", s, dst, ip)
				}
			}
			dst2 := make([]byte, 4)
			pok, n, perr := sipsp.IP4Prefix([]byte(s), dst2)
			rok, rend, rip, rfollow := refIP4Prefix(s)
			if pok != rok {
				return fmt.Sprintf("IP4Prefix(%q) accepted=%v, expected %v", s, pok, rok)
			}
			if pok {
				if n != rend {
					return fmt.Sprintf("IP4Prefix(%q) stopped at %d, the address can be extended up to %d only", s, n, rend)
				}
				if !bytes.Equal(rip[:], dst2) {
					return fmt.Sprintf("IP4Prefix(%q) bytes %v, text says %v", s, dst2, rip)
				}
				want := map[string]sipsp.ErrorHdr{"end": sipsp.ErrHdrOk, "digit": sipsp.ErrHdrMoreValues, "other": sipsp.ErrHdrBadChar}[rfollow]
				if perr != want {
					return fmt.Sprintf("IP4Prefix(%q): indication %v, but the address is followed by %s", s, perr, rfollow)
				}
			}
			return ""
		})
	}})
}

func (g *Gen) genC20() {
	r := g.r
	maxLen := 6
	if g.tier == "thorough" {
		maxLen = 8
	}
	alpha := "0125.x9"
	var rec func(prefix []byte)
	rec = func(prefix []byte) {
		g.c20case(string(prefix), "exhaustive-small-alphabet")
		if len(prefix) >= maxLen {
			return
		}
		for _, c := range []byte(alpha) {
			rec(append(prefix, c))
		}
	}
	if g.tier == "thorough" {
		rec(nil)
	} else {
		alpha = "025.x"
		rec(nil)
	}
	n := g.budget(4000, 300000)
	for i := 0; i < n; i++ {
		var s string
		quad := func() string {
			grp := func() string {
				switch r.N(8) {
				case 0:
					return fmt.Sprint(250 + r.N(10))
				case 1:
					return "0" + fmt.Sprint(r.N(100))
				case 2:
					return fmt.Sprint(r.N(2000))
				case 3:
					return "00" + fmt.Sprint(r.N(300))
				default:
					return fmt.Sprint(r.N(256))
				}
			}
			return grp() + "." + grp() + "." + grp() + "." + grp()
		}
		switch r.N(6) {
		case 0:
			s = quad()
		case 1:
			s = r.RandBytes("0123456789.", 0, 4) + quad() + r.RandBytes("0123456789.x", 0, 4)
		case 2:
			s = r.Alnum(0, 10) + r.Pick("@", "-", ".", "") + quad() + r.Pick("", "@", ".", ":5060") + r.Alnum(0, 6)
		case 3:
			s = r.RandBytes("0123456789.", 1, 24)
		case 4:
			s = r.RandBytes("012.", 1, 14)
		default:
			s = r.RandBytes("0123456789.abcx@-", 0, 300)
		}
		g.c20case(s, "random-embedded")
	}
}

// ---------------------------------------------------------------- C10

func bigOf(s string) *big.Int {
	n := new(big.Int)
	n.SetString(s, 10)
	return n
}

func allDigits(s string) bool {
	if s == "" {
		return false
	}
	for _, c := range []byte(s) {
		if c < '0' || c > '9' {
			return false
		}
	}
	return true
}

var two32 = new(big.Int).Lsh(big.NewInt(1), 32)

func (g *Gen) genC10() {
	g.exhOneShot("C10", "num")
	r := g.r
	n := g.budget(1200, 60000)
	digitsList := func() []string {
		var ds []string
		if g.tier == "thorough" || true {
			for _, b := range numBounds {
				ds = append(ds, b)
				ds = append(ds, "000"+b)
			}
		}
		for i := 0; i < n; i++ {
			ds = append(ds, r.Digits())
		}
		return ds
	}
	for _, d := range digitsList() {
		d := d
		v := bigOf(d)
		cut := func(text string) []int { return r.Cuts(text, len(text)) }
		// CSeq
		{
			text := d + " INVITE\r\nX"
			g.add(Case{Prop: "C10", Desc: "cseq", Lines: []string{parseSess("cseq", text, 0, cut(text), 0, false, "O")}, Check: func(out []string) string {
				return protect(func() string {
					var c sipsp.PCSeqBody
					_, err := sipsp.ParseCSeqVal([]byte(text), 0, &c)
					if err == 0 {
						got := fget([]byte(text), c.CSeq)
						if !allDigits(got) || bigOf(got).Cmp(big.NewInt(int64(c.CSeqNo))) != 0 {
							return fmt.Sprintf("CSeq %q accepted with number %d", d, c.CSeqNo)
						}
					}
					if err == 0 && v.Cmp(two32) >= 0 {
						return fmt.Sprintf("CSeq %q (>= 2^32) accepted as %d", d, c.CSeqNo)
					}
					if err != 0 && len(d) > 0 && (d == "0" || d[0] != '0') && v.Cmp(two32) < 0 {
						return fmt.Sprintf("CSeq %q (< 2^32) rejected: %v", d, err)
					}
					return ""
				})
			}})
		}
		// Content-Length and Expires headers
		for _, kind := range []string{"clen", "uint"} {
			kind := kind
			text := d + "\r\nX"
			g.add(Case{Prop: "C10", Desc: kind, Lines: []string{parseSess(kind, text, 0, cut(text), 0, false, "O")}, Check: func(out []string) string {
				return protect(func() string {
					var c sipsp.PUIntBody
					var err sipsp.ErrorHdr
					if kind == "clen" {
						_, err = sipsp.ParseCLenVal([]byte(text), 0, &c)
					} else {
						_, err = sipsp.ParseExpiresVal([]byte(text), 0, &c)
					}
					if err == 0 {
						got := fget([]byte(text), c.SVal)
						if !allDigits(got) || bigOf(got).Cmp(big.NewInt(int64(c.UIVal))) != 0 {
							return fmt.Sprintf("%s value %q accepted as %d", kind, d, c.UIVal)
						}
						if kind == "clen" && (v.Cmp(big.NewInt(1<<24)) > 0 || len(got) > 9) {
							return fmt.Sprintf("Content-Length %q outside the documented range accepted", d)
						}
						if kind == "uint" && v.Cmp(two32) >= 0 {
							return fmt.Sprintf("Expires %q (>= 2^32) accepted as %d", d, c.UIVal)
						}
					}
					// a number inside the documented range, written without padding, is not rejected
					if err != 0 && len(d) > 0 && (d == "0" || d[0] != '0') {
						if kind == "clen" && v.Cmp(big.NewInt(1<<24)) <= 0 && len(d) <= 9 {
							return fmt.Sprintf("Content-Length %q (inside the documented range) rejected: %v", d, err)
						}
						if kind == "uint" && v.Cmp(two32) < 0 {
							return fmt.Sprintf("Expires %q (< 2^32) rejected: %v", d, err)
						}
					}
					return ""
				})
			}})
		}
		// Content-Length / Expires / CSeq through the header-line parser, chunked
		for _, hn := range []string{"Content-Length", "l", "Expires", "CSeq"} {
			hn := hn
			val := d
			if hn == "CSeq" {
				val = d + " ACK"
			}
			text := hn + ": " + val + "\r\nX"
			cuts := cut(text)
			g.add(Case{Prop: "C10", Desc: "hdrline-" + hn, Lines: []string{parseSess("hdrline 1 0", text, 0, cuts, 0, false, "O")}, Check: func(out []string) string {
				return protect(func() string {
					var h sipsp.Hdr
					var pv sipsp.PHdrVals
					bb := []byte(text)
					var err sipsp.ErrorHdr
					off := 0
					for _, c := range cuts {
						off, err = sipsp.ParseHdrLine(bb[:c], off, &h, &pv)
						if err != sipsp.ErrHdrMoreBytes {
							break
						}
					}
					if err != 0 {
						return ""
					}
					switch hn {
					case "Content-Length", "l":
						if v.Cmp(big.NewInt(1<<24)) > 0 || len(d) > 9 || v.Cmp(big.NewInt(int64(pv.CLen.UIVal))) != 0 {
							return fmt.Sprintf("Content-Length %q accepted as %d (chunked at %v)", d, pv.CLen.UIVal, cuts)
						}
					case "Expires":
						if v.Cmp(two32) >= 0 || v.Cmp(big.NewInt(int64(pv.Expires.UIVal))) != 0 {
							return fmt.Sprintf("Expires %q accepted as %d (chunked at %v)", d, pv.Expires.UIVal, cuts)
						}
					case "CSeq":
						if v.Cmp(two32) >= 0 || v.Cmp(big.NewInt(int64(pv.CSeq.CSeqNo))) != 0 {
							return fmt.Sprintf("CSeq %q accepted as %d (chunked at %v)", d, pv.CSeq.CSeqNo, cuts)
						}
					}
					return ""
				})
			}})
		}
		// Contact expires / q
		{
			text := "<sip:a@b>;expires=" + d + "\r\nX"
			g.add(Case{Prop: "C10", Desc: "contact-expires", Lines: []string{parseSess("nameaddr 8", text, 0, cut(text), 0, false, "O")}, Check: func(out []string) string {
				return protect(func() string {
					var c sipsp.PFromBody
					_, err := sipsp.ParseOneContact([]byte(text), 0, &c)
					if err != 0 {
						return fmt.Sprintf("contact with expires=%q rejected: %v", d, err)
					}
					want := new(big.Int).Set(v)
					if want.Cmp(big.NewInt(0xffffffff)) > 0 {
						want = big.NewInt(0xffffffff)
					}
					if !c.HasExpires || want.Cmp(big.NewInt(int64(c.Expires))) != 0 {
						return fmt.Sprintf("expires=%q reported as %d (HasExpires=%v), expected %v", d, c.Expires, c.HasExpires, want)
					}
					return ""
				})
			}})
		}
		{
			q := d
			if r.P(70) {
				q = r.Pick("0.", "1.", "0.0", ".", "00.") + d
			}
			if r.P(20) {
				q = r.Pick("0", "1", "0.5", "0.75", "0.999", "1.000", "0.001", "1.0", ".5", "1.")
			}
			text := "<sip:a@b>;q=" + q + "\r\nX"
			g.add(Case{Prop: "C10", Desc: "contact-q", Lines: []string{parseSess("nameaddr 8", text, 0, cut(text), 0, false, "O")}, Check: func(out []string) string {
				return protect(func() string {
					var c sipsp.PFromBody
					_, err := sipsp.ParseOneContact([]byte(text), 0, &c)
					if err != 0 {
						return fmt.Sprintf("contact with q=%q rejected: %v", q, err)
					}
					// reference: integer part [.fraction] ; at most 3 decimals; value <= 1
					ip, fp := q, ""
					hasDot := false
					if k := strings.IndexByte(q, '.'); k >= 0 {
						ip, fp, hasDot = q[:k], q[k+1:], true
					}
					valid := (ip == "" || allDigits(ip)) && (fp == "" || allDigits(fp)) && (ip != "" || hasDot) && len(fp) <= 3
					var want int64 = -1
					if valid {
						iv := big.NewInt(0)
						if ip != "" {
							iv = bigOf(ip)
						}
						f3 := (fp + "000")[:3]
						fv := bigOf(f3)
						tot := new(big.Int).Add(new(big.Int).Mul(iv, big.NewInt(1000)), fv)
						if tot.Cmp(big.NewInt(1000)) <= 0 {
							want = tot.Int64()
						}
					}
					if want >= 0 {
						if int64(c.Q) != want || c.ParamErr != 0 {
							return fmt.Sprintf("q=%q reported as Q=%d ParamErr=%v, expected Q=%d", q, c.Q, c.ParamErr, want)
						}
					} else {
						if c.Q != 0 || c.ParamErr == 0 {
							return fmt.Sprintf("q=%q (out of range / malformed) gives Q=%d ParamErr=%v; expected unset and flagged", q, c.Q, c.ParamErr)
						}
					}
					return ""
				})
			}})
		}
		// URI port
		// (the last four: text first taken as host:port[;params|?headers] that a later '@' turns into the user part)
		for _, form := range []string{"sip:u:12@h:%s", "sip:u:0065@h:%s;t=u", "sips:b:7@[::1]:%s?h=v", "sip:1:2@3:%s", "sip:12@h:%s", "sip:9:0@[::1]:%s;x", "sip:h:%s", "sip:u@h:%s", "sip:u:p@h:%s;x=y", "sip:h:%s?a=b", "sips:[::1]:%s",
			"sip:[::1]:5;x@h:%s", "sip:[::2]:77?q@h:%s;y", "sips:[a]:9;x=1;y@[::1]:%s", "sip:[::1]:65535;lr@h:%s?z=1"} {
			u := fmt.Sprintf(form, d)
			g.add(Case{Prop: "C10", Desc: "uri-port", Lines: []string{fmt.Sprintf("uri | B %s | P %d 0 0 | O", hx(u), len(u))}, Check: func(out []string) string {
				return protect(func() string {
					var pu sipsp.PsipURI
					err, _ := sipsp.ParseURI([]byte(u), &pu)
					if err == 0 {
						got := fget([]byte(u), pu.Port)
						if got != d || v.Cmp(big.NewInt(int64(pu.PortNo))) != 0 {
							return fmt.Sprintf("URI %q accepted with port %d (field %q)", u, pu.PortNo, got)
						}
					}
					return ""
				})
			}})
		}
	}
	// status codes: all 1000
	for code := 0; code < 1000; code++ {
		code := code
		text := fmt.Sprintf("SIP/2.0 %03d OK\r\nX", code)
		g.add(Case{Prop: "C10", Desc: "status", Lines: []string{parseSess("fline", text, 0, []int{len(text)}, 0, false, "O")}, Check: func(out []string) string {
			var fl sipsp.PFLine
			_, err := sipsp.ParseFLine([]byte(text), 0, &fl)
			if err != 0 || int(fl.Status) != code {
				return fmt.Sprintf("status line %03d: err=%v Status=%d", code, err, fl.Status)
			}
			return ""
		}})
	}
}
