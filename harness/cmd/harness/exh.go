package main

// Bounded-exhaustive layer ("small scope"): for every stand-alone streaming parser, ALL byte strings over a small
// parser-specific alphabet up to a fixed length, optionally after a fixed prefix that drives the automaton into a
// deep state (inside a parameter list, inside a quoted string, after the URI …), followed by a line end. Nothing
// is sampled here: a change of a single transition, action or suspension offset that shows on such a string is
// seen deterministically (model/implementation correspondence on every step) and is judged by the property's own
// metamorphic oracle (resume = one-shot, extension, shift, reuse after reset). It complements the random
// grammar-directed generators, which reach long and numeric inputs that no enumeration can.

import (
	"strings"
)

type exhSpec struct {
	hd       string
	flags    int
	prefixes []string
	alpha    string
	maxLen   int // strings of length 0..maxLen for the empty prefix, 0..maxLen-1 after the other prefixes
	trailer  string
	desc     string
}

func enumStrings(alpha string, maxLen int, f func(string)) {
	buf := make([]byte, 0, maxLen)
	var rec func()
	rec = func() {
		f(string(buf))
		if len(buf) == maxLen {
			return
		}
		for i := 0; i < len(alpha); i++ {
			buf = append(buf, alpha[i])
			rec()
			buf = buf[:len(buf)-1]
		}
	}
	rec()
}

func (s exhSpec) each(f func(text string)) {
	for k, p := range s.prefixes {
		ml := s.maxLen
		if k > 0 || p != "" {
			ml--
		}
		enumStrings(s.alpha, ml, func(t string) { f(p + t + s.trailer) })
	}
}

// eachByte: every byte value (0..255) after every short state-reaching prefix: all strings over the alphabet of
// length <= depth, and every deep prefix followed by at most one alphabet symbol. Covers the bytes that are not in
// the small alphabet (control bytes, HT, other punctuation, 8-bit bytes) in every state those prefixes reach.
func (s exhSpec) eachByte(depth int, f func(text string)) {
	seen := map[string]bool{}
	var pres []string
	addp := func(p string) {
		if !seen[p] {
			seen[p] = true
			pres = append(pres, p)
		}
	}
	ext := 1
	if depth < 0 { // narrow mode (used under the chunk-schedule oracle): the given prefixes only
		depth, ext = 0, 0
	}
	for k, p := range s.prefixes {
		if k == 0 && p == "" {
			enumStrings(s.alpha, depth, addp)
			continue
		}
		enumStrings(s.alpha, ext, func(t string) { addp(p + t) })
	}
	for _, p := range pres {
		for c := 0; c < 256; c++ {
			f(p + string([]byte{byte(c)}) + s.trailer)
			if len(s.alpha) > 0 && ext == 1 {
				f(p + string([]byte{byte(c)}) + s.alpha[:1] + s.trailer)
			}
		}
	}
}

// exhSpecs lists the enumerations; d = extra length; full = every header kind / option word (thorough tier).
// Quick: (0, false). Thorough: (1, true) for the one-shot correspondence, (0, true) under the metamorphic oracles
// (which multiply every text by its chunk schedules / suffixes).
func exhSpecs(d int, full bool, sel string) []exhSpec {
	quick := !full
	var out []exhSpec
	add := func(group string, s exhSpec) {
		if sel == "" || strings.Contains(sel, group) {
			s.maxLen += d
			out = append(out, s)
		}
	}
	naAlpha := "a<>\";=, \r\n\\*"
	naPre := []string{"", "<a>;", "<a>;q=", "\"", "a <b>;t=c", "<a> ;expires=1"}
	naHds := []string{"nameaddr 1", "nameaddr 2", "nameaddr 8", "nameaddr 13", "pai1", "contacts 0", "contacts 2", "pais"}
	if quick {
		naHds = []string{"nameaddr 1", "nameaddr 8", "contacts 1", "pais"}
	}
	for _, hd := range naHds {
		add("na", exhSpec{hd: hd, prefixes: naPre, alpha: naAlpha, maxLen: 4, trailer: "\r\nX", desc: "exh-" + strings.Fields(hd)[0]})
	}
	tpAlpha := "a=;,&? \r\n\"\\"
	tpFlags := []int{0, 1, 2, 4, 16, 32, 64, 128, 1 | 16, 2 | 32, 64 | 2, 128 | 4, 16 | 4 | 1}
	if quick {
		tpFlags = []int{0, 4, 16 | 4, 16 | 2, 64, 128, 1 | 16, 16 | 4 | 1}
	}
	for _, fl := range tpFlags {
		add("tp", exhSpec{hd: "tokparam", flags: fl, prefixes: []string{"", "a=\"", "a;b="}, alpha: tpAlpha, maxLen: 4, trailer: "\r\nX", desc: "exh-tokparam"})
	}
	add("tp", exhSpec{hd: "uriparams 0", flags: 64, prefixes: []string{"", "a=b;"}, alpha: tpAlpha, maxLen: 4, trailer: "\r\nX", desc: "exh-uriparams"})
	add("tp", exhSpec{hd: "uriparams 2", flags: 64, prefixes: []string{"", "a=b;", "a;b;c"}, alpha: tpAlpha, maxLen: 4, trailer: "\r\nX", desc: "exh-uriparams"})
	add("tp", exhSpec{hd: "urihdrs 0", flags: 128, prefixes: []string{"", "a=b&"}, alpha: tpAlpha, maxLen: 4, trailer: "\r\nX", desc: "exh-urihdrs"})
	add("tp", exhSpec{hd: "urihdrs 2", flags: 128, prefixes: []string{"", "a=b&", "a&b&c"}, alpha: tpAlpha, maxLen: 4, trailer: "\r\nX", desc: "exh-urihdrs"})
	hlAlpha := "a: \t\r\n1<;"
	hlPre := []string{"", "l:", "f:", "t:<a>", "m:", "i:", "CSeq:", "Expires:", "P-Asserted-Identity:", "x:"}
	add("hl", exhSpec{hd: "hdrline 0 0", prefixes: hlPre, alpha: hlAlpha, maxLen: 4, trailer: "\r\nX", desc: "exh-hdrline-nil"})
	add("hl", exhSpec{hd: "hdrline 1 2", prefixes: hlPre, alpha: hlAlpha, maxLen: 4, trailer: "\r\nX", desc: "exh-hdrline-vals"})
	hsAlpha := "a:\r\n l1"
	add("hl", exhSpec{hd: "headers 2 0 0", prefixes: []string{"", "a:b\r\n", "l:1\r\nl"}, alpha: hsAlpha, maxLen: 5, trailer: "\r\n\r\nX", desc: "exh-headers"})
	add("hl", exhSpec{hd: "headers 1 1 1", prefixes: []string{"", "m:<a>\r\n", "m:b,"}, alpha: hsAlpha + "m<", maxLen: 4, trailer: "\r\n\r\nX", desc: "exh-headers"})
	add("num", exhSpec{hd: "cseq", prefixes: []string{"", "1 A", "429496729"}, alpha: "19AI \t\r\n", maxLen: 5, trailer: "\r\nX", desc: "exh-cseq"})
	add("num", exhSpec{hd: "uint", prefixes: []string{"", "429496729"}, alpha: "059 \t\r\na", maxLen: 5, trailer: "\r\nX", desc: "exh-uint"})
	add("num", exhSpec{hd: "clen", prefixes: []string{"", "1677721"}, alpha: "0569 \t\r\na", maxLen: 5, trailer: "\r\nX", desc: "exh-clen"})
	add("num", exhSpec{hd: "callid", prefixes: []string{""}, alpha: "a@ \t\r\n", maxLen: 5, trailer: "\r\nX", desc: "exh-callid"})
	add("sq", exhSpec{hd: "skipq", prefixes: []string{""}, alpha: "a\"\\ \r\n", maxLen: 5, trailer: "", desc: "exh-skipq"})
	flAlpha := "A /.:1\r\n\t"
	for _, t := range []string{"INVITE sip:a SIP/2.0", "SIP/2.0 200 OK", "ACK a SIP/2.0", "sip/2.0 99 "} {
		add("fl", exhSpec{hd: "fline", prefixes: []string{t}, alpha: flAlpha, maxLen: 4, trailer: "\r\nX", desc: "exh-fline"})
		// every proper prefix of the template followed by every short string
		for c := 1; c < len(t); c += 2 {
			add("fl", exhSpec{hd: "fline", prefixes: []string{t[:c]}, alpha: flAlpha, maxLen: 3, trailer: t[c:] + "\r\nX", desc: "exh-fline"})
		}
	}
	msAlpha := "a1<>;=, \r\n\""
	for _, hd := range []string{"msg 3 1", "msg - -", "msgz"} {
		for _, p := range []string{"f:", "t:<a>;", "m:", "m:<a>;expires=", "i:", "CSeq:", "l:", "Expires:", "P-Asserted-Identity:", "x:", "m:<a>\r\nm:"} {
			ml := 3
			if hd != "msg 3 1" {
				ml = 2
			}
			add("msg", exhSpec{hd: hd, prefixes: []string{"INVITE sip:a SIP/2.0\r\n" + p}, alpha: msAlpha, maxLen: ml + 1, trailer: "\r\n\r\nX", desc: "exh-msg"})
		}
	}
	return out
}

func allCuts(n int) []int {
	c := make([]int, n)
	for i := range c {
		c[i] = i + 1
	}
	return c
}

// exhResume: byte-by-byte chunk schedule of every enumerated string against a fresh one-shot call on every prefix
// (the one-shot sessions carry only the prefix as their buffer, so equal prefixes of different strings share one
// session) and, in the thorough tier, every two-chunk schedule.
func (g *Gen) exhResume(prop, sel string) {
	full := g.tier == "thorough"
	d := 0
	intern := map[string]string{}
	mk := func(hd, text string, cuts []int, flags int, desc string) {
		c := resumeCase(prop, hd, text, 0, cuts, flags, flags, desc)
		for j, cut := range cuts {
			l := parseSess(hd, text[:cut], 0, []int{cut}, flags, true, "")
			if x, ok := intern[l]; ok {
				l = x
			} else {
				intern[l] = l
			}
			c.Lines[1+j] = l
		}
		g.add(c)
	}
	for _, s := range exhSpecs(d, full, sel) {
		s.each(func(text string) {
			n := len(text)
			if n == 0 {
				return
			}
			mk(s.hd, text, allCuts(n), s.flags, s.desc)
			if g.tier == "thorough" {
				for c := 1; c < n; c++ {
					mk(s.hd, text, []int{c, n}, s.flags, s.desc+"-2chunk")
				}
			}
		})
		if !strings.HasPrefix(s.hd, "msg") || s.hd == "msg 3 1" {
			s.eachByte(-1, func(text string) {
				mk(s.hd, text, allCuts(len(text)), s.flags, s.desc+"-anybyte")
			})
		}
	}
}

// exhOneShot: correspondence only (model = implementation on every enumerated string, one call)
func (g *Gen) exhOneShot(prop, sel string) {
	d := g.budget(0, 1)
	for _, s := range exhSpecs(d, d == 1, sel) {
		one := func(desc string) func(text string) {
			return func(text string) {
				g.add(Case{Prop: prop, Desc: desc, Lines: []string{parseSess(s.hd, text, 0, []int{len(text)}, s.flags, true, "")},
					Check: func(out []string) string { return "" }})
			}
		}
		s.each(one(s.desc + "-oneshot"))
		s.eachByte(1+d, one(s.desc+"-anybyte"))
	}
}

// exhStable: every enumerated string b (without the trailer) extended by each of a few suffixes
func (g *Gen) exhStable(prop, sel string) {
	full := g.tier == "thorough"
	d := 0
	sfx := []string{"\r\nX", " ", "a", "\r\n ", "\nX", ";"}
	for _, s := range exhSpecs(d, full, sel) {
		tr := s.trailer
		s.trailer = ""
		isMsg := strings.HasPrefix(s.hd, "msg")
		s.each(func(text string) {
			if text == "" {
				return
			}
			if isMsg {
				g.add(stableCase(prop, s.hd, text+tr[:len(tr)-1], "X", 0, 0, s.desc+"-ext"))
				return
			}
			for k, x := range sfx {
				// quick tier: two of the six suffixes per string (fixed by the string), thorough: all
				if !full && k != len(text)%3 && k != 3+(len(text)+int(text[len(text)-1]))%3 {
					continue
				}
				g.add(stableCase(prop, s.hd, text, x, 0, s.flags&^8, s.desc+"-ext"))
			}
		})
	}
}

// exhShift: every enumerated string at offset 0 and behind 1 / 3 junk bytes
func (g *Gen) exhShift(prop, sel string) {
	for _, s := range exhSpecs(0, g.tier == "thorough", sel) {
		s.each(func(text string) {
			if text == "" {
				return
			}
			junk := "\n"
			if len(text)%2 == 1 {
				junk = "a;\""
			}
			g.add(shiftCase(prop, s.hd, text, junk, []int{len(text)}, s.flags, "", s.desc+"-shift"))
		})
	}
}

// exhReset: a parse of an enumerated string abandoned wherever it stopped, then Reset (or Init), then a fixed valid input
func (g *Gen) exhReset(prop, sel string) {
	full := g.tier == "thorough"
	finals := map[string]string{
		"nameaddr": "\"x\" <sip:a@b>;tag=1;expires=2\r\nX", "pai1": "<sip:a@b>\r\nX", "contacts": "<sip:a@b>;expires=7, <c>;q=0.5\r\nX",
		"pais": "<a>, <b>\r\nX", "tokparam": "a=b;c\r\nX", "uriparams": "a=b;lr;c=d\r\nX", "urihdrs": "a=b&c=d\r\nX",
		"hdrline": "f: <a>;tag=1\r\nX", "headers": "f:<a>\r\nm:<b>\r\nl:0\r\n\r\nX", "cseq": "12 INVITE\r\nX", "uint": "42\r\nX",
		"clen": "42\r\nX", "callid": "a@b\r\nX", "fline": "INVITE sip:a SIP/2.0\r\nX",
		"msg": "INVITE sip:a SIP/2.0\r\nf:<a>;tag=1\r\nt:<b>\r\ni:c\r\nCSeq:1 INVITE\r\nm:<d>;expires=3\r\nl:0\r\n\r\n", "msgz": "INVITE sip:a SIP/2.0\r\nf:<a>\r\nl:0\r\n\r\n",
	}
	for _, s := range exhSpecs(0, full, sel) {
		kind := strings.Fields(s.hd)[0]
		fin, ok := finals[kind]
		if !ok {
			continue
		}
		s.trailer = ""
		k := 0
		s.each(func(text string) {
			if text == "" {
				return
			}
			k++
			how := "R"
			if k%3 == 0 && kind != "tokparam" && kind != "fline" && kind != "hdrline" {
				how = "I"
			}
			g.add(resetCase(prop, s.hd, []histStep{{buf: text, cut: len(text), flags: s.flags &^ 8, how: how}}, fin, s.flags&^8, "", s.desc+"-reuse"))
		})
	}
}
