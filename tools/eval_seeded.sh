#!/bin/bash
# eval_seeded.sh [tier] [ids...] : applies each seeded change to /repo, runs the check of the property it
# breaks, undoes it. Prints one line per change.
tier=${1:-quick}; shift
ids="$@"; [ -z "$ids" ] && ids=$(ls /verif/seeded)
cd /verif
# evidence files must describe runs against the unchanged tree: keep them aside while a change is applied
export VERIF_EVIDENCE=/tmp/evidence.eval.$$   # evidence of these runs is scratch
trap 'rm -rf /tmp/evidence.eval.$$' EXIT
for id in $ids; do
  prop=${id:0:3}
  if ! git -C /repo apply --check /verif/seeded/$id/patch.diff 2>/dev/null; then echo "$id: patch does not apply"; continue; fi
  git -C /repo apply /verif/seeded/$id/patch.diff
  out=$(./check $prop $tier 2>&1); rc=$?
  git -C /repo checkout -- .
  v=$(echo "$out" | grep -m1 '^VIOLATION' )
  s=$(echo "$out" | tail -1)
  echo "$id rc=$rc :: ${v:-no violation line} :: $s"
done
