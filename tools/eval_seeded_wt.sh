#!/bin/bash
# eval_seeded_wt.sh [tier] [ids...] : like eval_seeded.sh but applies each seeded change to a scratch worktree of
# /repo (VERIF_REPO) instead of /repo itself, so that /repo stays untouched and several evaluations can be queued.
V=$(dirname "$(dirname "$(readlink -f "$0")")")   # /verif, or a snapshot of it
tier=${1:-quick}; shift
ids="$@"; [ -z "$ids" ] && ids=$(ls $V/seeded)
wt=/tmp/evalwt.$$
git -C /repo worktree add -q --detach $wt HEAD || exit 2
cd $V
export VERIF_EVIDENCE=/tmp/evidence.eval.$$   # evidence of these runs is scratch
trap 'rm -rf /tmp/evidence.eval.$$; git -C /repo worktree remove --force '$wt'; env -u VERIF_REPO flock '$V'/.build/lock '$V'/build.sh >/dev/null 2>&1' EXIT   # the last line regenerates lean/Sipsp/Generated from /repo itself
for id in $ids; do
  prop=${PROP:-${id:0:3}}
  if ! git -C $wt apply --check $V/seeded/$id/patch.diff 2>/dev/null; then echo "$id: patch does not apply"; continue; fi
  git -C $wt apply $V/seeded/$id/patch.diff
  out=$(VERIF_REPO=$wt ./check $prop $tier 2>&1); rc=$?
  git -C $wt checkout -- .
  v=$(echo "$out" | grep -m1 '^VIOLATION' )
  s=$(echo "$out" | tail -1)
  echo "$id rc=$rc :: ${v:-no violation line} :: $s"
done
