#!/bin/bash
# confirm_seeded.sh <dir-with-patch.diff+zz_demo_test.go> : checks in a scratch worktree of /repo that
#   the patch applies, the existing suite passes with it, the demo fails with it and passes without it.
export GOFLAGS=-mod=mod GOPROXY=off GOSUMDB=off GOTOOLCHAIN=local
d=$1; id=$(basename $d)
wt=/tmp/confirm.$id.$$
git -C /repo worktree add -q --detach $wt HEAD || exit 2
cd $wt
res="id=$id"
if git apply --check $d/patch.diff 2>/dev/null; then res="$res apply=ok"; else res="$res apply=FAIL"; fi
git apply $d/patch.diff 2>/dev/null
if go build ./... >/dev/null 2>&1; then res="$res build=ok"; else res="$res build=FAIL"; fi
if go test -vet=off -count=1 ./... >/dev/null 2>&1; then res="$res suite_with=pass"; else res="$res suite_with=FAIL"; fi
cp $d/zz_demo_test.go .
if go test -vet=off -count=1 -run 'TestDemo' . >/dev/null 2>&1; then res="$res demo_with=PASS(bad)"; else res="$res demo_with=fail(good)"; fi
rm zz_demo_test.go; git checkout -q -- .
cp $d/zz_demo_test.go .
if go test -vet=off -count=1 -run 'TestDemo' . >/dev/null 2>&1; then res="$res demo_without=pass(good)"; else res="$res demo_without=FAIL(bad)"; fi
cd /; git -C /repo worktree remove --force $wt
echo "$res"
