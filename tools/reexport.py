#!/usr/bin/env python3
"""reexport.py Cxx Sipsp.Proofs.Module "section title" new=orig [new=orig ...]
Adds `import Module` to lean/Sipsp/Properties/Cxx.lean and, before the final `end Sipsp.Cxx`, one
`theorem new : type_of% @Sipsp.orig := @Sipsp.orig` per pair, with the doc comment of `orig` copied from the module."""
import re, sys
prop, mod, title = sys.argv[1:4]
pairs = [a.split("=", 1) for a in sys.argv[4:]]
L = "/verif/lean/"
src = open(L + mod.replace(".", "/") + ".lean").read()
# "C01x" targets the extension file Properties/C01x.lean (same namespace Sipsp.C01; for theorems from layers that import
# the property file itself); it is created on first use
ext = prop.endswith("x")
ns = prop[:-1] if ext else prop
path = L + "Sipsp/Properties/%s.lean" % prop
import os
if ext and not os.path.exists(path):
    open(path, "w").write("""/-
  Property %s - extension file: theorems of this property that are proved in layers which themselves import
  Sipsp/Properties/%s.lean (message-level compositions, audit lemmas). Same namespace as the main file; the check
  audits both files together.
-/
import Sipsp.Properties.%s

namespace Sipsp.%s
open Sipsp

end Sipsp.%s
""" % (ns, ns, ns, ns, ns))
s = open(path).read()
if ("import " + mod + "\n") not in s:
    imps = list(re.finditer(r"^import .*\n", s, flags=re.M))
    k = imps[-1].end()
    s = s[:k] + "import " + mod + "\n" + s[k:]
out = ["", "/-! ### %s (proved in `%s`) -/" % (title, mod), ""]
for new, orig in pairs:
    m = re.search(r"(/--(?:(?!-/).)*-/\s*)?(?:@\[[^\]]*\]\s*)?theorem\s+" + re.escape(orig) + r"\b", src, flags=re.S)
    if not m:
        sys.exit("theorem %s not found in %s" % (orig, mod))
    if re.search(r"^theorem\s+" + re.escape(new) + r"\b", s, flags=re.M):
        sys.exit("name %s already used in %s" % (new, path))
    doc = (m.group(1) or "").strip()
    if doc:
        out.append(doc)
    out.append("theorem %s : type_of%% @Sipsp.%s := @Sipsp.%s" % (new, orig, orig))
    out.append("")
end = "end Sipsp.%s" % ns
k = s.rindex(end)
s = s[:k] + "\n".join(out).lstrip("\n") + "\n" + s[k:]
open(path, "w").write(s)
print("added %d theorems to %s" % (len(pairs), path))
