#!/usr/bin/env python3
# generates the per-kind case analyses of Sipsp/Proofs/SafeHdrLine.lean (parseBody_safe, hlCont_safe)
six = ['from_', 'to', 'callid', 'cseq', 'clen', 'expires']
def mk(kind, P, H='Hm', ct=None, pa=None, ctin=None, pain=None):
    comps = [P if k == kind else f'{H}.{k}' for k in six]
    ctS, ctI = ct if ct else ('(fun hh => by cases hh)', f'fun _ => {H}.ctI hn1')
    paS, paI = pa if pa else ('(fun hh => by cases hh)', f'fun _ => {H}.paI hn2')
    ci = ctin if ctin else f'{H}.ctIn'
    pi = pain if pain else f'{H}.paIn'
    return '⟨' + ', '.join(comps + [ctS, ctI, paS, paI, ci, pi]) + '⟩'
fineF = ['from_', 'to', 'callid', 'cseq', 'clen', 'expires', 'contacts', 'pais']
def mkfine(kind, P):
    return '⟨' + ', '.join(P if k == kind else f'HF.{k}' for k in fineF) + '⟩'

# kind, hdrconst, parser-call (on b o), state ctor, val field, how
kinds = [
 ('from_', 'HdrFrom', 'parseNameAddrPVal HdrFrom b o hv.from_', 'hFrom', 'v'),
 ('to', 'HdrTo', 'parseNameAddrPVal HdrTo b o hv.to', 'hTo', 'v'),
 ('callid', 'HdrCallID', 'parseCallIDVal b o hv.callid', 'hCallID', 'callID'),
 ('cseq', 'HdrCSeq', 'parseCSeqVal b o hv.cseq', 'hCSeq', 'v'),
 ('clen', 'HdrCLen', 'parseCLenVal b o hv.clen', 'hCLen', 'sVal'),
 ('contacts', 'HdrContact', None, 'hContact', 'lastHVal'),
 ('expires', 'HdrExpires', 'parseUIntVal b o hv.expires', 'hExpires', 'sVal'),
 ('pais', 'HdrPAI', None, 'hPAI', 'lastHVal'),
]

def safe_facts(kind, hdr):
    """returns (have-lines, fineP, valP, okP, moreP) — proofs for the updated component"""
    if kind in ('from_', 'to'):
        return ([f'have hS := parseNameAddrPVal_safe {hdr} b o hv.{kind} H.{kind} hq'],
                'hS.1.fine', 'PField.inside_mono hS.1.v hS.1.ho',
                f'Or.inl ⟨(naPVal_ok_range {hdr} b o hv.{kind} ho hq (Or.inl rfl)).1, hS.1⟩', 'hS.2 rfl')
    if kind == 'callid':
        return (['have hS := parseCallIDVal_safe b o hv.callid H.callid', 'rw [hq] at hS'],
                '⟨PField.inside_mono hS.fld hS.hi, hS.pnc⟩', 'PField.inside_mono hS.fld hS.hi', 'hS', 'hS')
    if kind == 'cseq':
        return (['have hS := parseCSeqVal_safe b o hv.cseq hfit H.cseq', 'rw [hq] at hS'],
                'hS.1', 'hS.1.2.2.1', 'hS.2.2 (by intro hh; cases hh)', 'hS.2.2 (by intro hh; cases hh)')
    if kind == 'clen':
        return (['have hS := parseCLenVal_safe b o hv.clen H.clen', 'rw [hq] at hS'],
                'hS.1', 'hS.1.1', 'hS.2.1 (by intro hh; cases hh)', 'hS.2.1 (by intro hh; cases hh)')
    if kind == 'expires':
        return (['have hS := parseUIntVal_safe b o hv.expires H.expires', 'rw [hq] at hS'],
                'hS.out', 'PField.inside_mono hS.fld hS.hi', 'hS', 'hS')
    raise ValueError(kind)

def nle(kind):
    return {'from_': 'hS.1.ho', 'to': 'hS.1.ho', 'callid': 'hS.hi', 'cseq': 'hS.2.1', 'clen': 'hS.2.2', 'expires': 'hS.hi',
            'contacts': 'hS.2.2.2', 'pais': 'hS.2.2.2'}[kind]

def relv(kind):
    return {'from_': 'hS.1.v', 'to': 'hS.1.v', 'callid': 'hS.fld', 'cseq': '(hS.2.2 (by intro hh; cases hh)).v',
            'clen': '(hS.2.1 (by intro hh; cases hh)).fld', 'expires': 'hS.fld',
            'contacts': '(hS.2.2.1 rfl).2.2.lhv', 'pais': '(hS.2.2.1 rfl).2.2.lhv'}[kind]

def okr(kind, hdr):
    if kind in ('from_', 'to'):
        t = f'(naPVal_ok_range {hdr} b o hv.{kind} ho hq (Or.inl rfl))'
        return f'⟨{t}.2.1, {t}.2.2⟩'
    t = {'callid': '(parseCallIDVal_post b o hv.callid ho hq)', 'cseq': '(parseCSeqVal_post b o hv.cseq ho hq)',
         'clen': '(parseCLenVal_post b o hv.clen ho hq)', 'expires': '(parseUIntVal_post b o hv.expires ho hq)',
         'contacts': '(parseAllContactValues_post b o hv.contacts hok.2.2.2.1 ho hq)',
         'pais': '(parseAllPAIValues_post b o hv.pais hok.2.2.2.2 ho hq)'}[kind]
    return f'⟨{t}.1, {t}.2.1⟩'

def gen_parseBody():
    L = []
    A = L.append
    A('''/-- **the header-value dispatch never panics** and leaves every value object dereferenceable; after OK / MoreBytes
    the values object is legitimate at the returned offset -/
theorem parseBody_safe (b : Buf) (o : Nat) (h : Hdr) (hv : PHdrVals) (hst : h.state = .bodyStart) (ho : o ≤ b.size)
    (hfit : b.size ≤ 65535) (hok : hvOK b o hv) (H : HvSafe b o .bodyStart hv) (hpnc : h.pnc = false)
    (hval : h.val.inside b.size) (hvalI : h.val.inside o) {n : Nat} {e : Err} {h2 : Hdr} {hb2 : Option PHdrVals}
    (hr : parseBody b o h (some hv) = (n, e, h2, hb2)) :
    ∃ hv2, hb2 = some hv2 ∧ HvFine b hv2 ∧ h2.pnc = false ∧ h2.name = h.name ∧ h2.val.inside b.size ∧
      (h2.state = .bodyStart → n = o ∧ e = .ok ∧ h2 = h ∧ hv2 = hv) ∧ (h2.state = .bodyStart ∨ h2.state.isVal) ∧
      ((e = .ok ∨ e = .moreBytes) → o ≤ n ∧ n ≤ b.size) ∧
      (e = .ok → HvSafe b n .fin hv2) ∧ (e = .moreBytes → HvSafe b n h2.state hv2) ∧ n ≤ b.size ∧
      ((e = .ok ∨ e = .moreBytes) → h2.val.inside n) := by
  have hrange : (e = .ok ∨ e = .moreBytes) → o ≤ n ∧ n ≤ b.size := by
    intro he
    rcases he with rfl | rfl
    · have := parseBody_post b o h (some hv) hok ho hr; exact ⟨this.1, this.2.1⟩
    · have := parseBody_restart b #[] o h (some hv) ho hok hr; exact ⟨this.2.2.1, this.2.2.2.1⟩
  have hn1 : HState.bodyStart ≠ .hContact := by decide
  have hn2 : HState.bodyStart ≠ .hPAI := by decide
  have HF := H.fine
  have hskip : ∀ {n : Nat} {e : Err} {h2 : Hdr} {hb2 : Option PHdrVals}, (o, Err.ok, h, some hv) = (n, e, h2, hb2) →
      ∃ hv2, hb2 = some hv2 ∧ HvFine b hv2 ∧ h2.pnc = false ∧ h2.name = h.name ∧ h2.val.inside b.size ∧
      (h2.state = .bodyStart → n = o ∧ e = .ok ∧ h2 = h ∧ hv2 = hv) ∧ (h2.state = .bodyStart ∨ h2.state.isVal) ∧
      ((e = .ok ∨ e = .moreBytes) → o ≤ n ∧ n ≤ b.size) ∧
      (e = .ok → HvSafe b n .fin hv2) ∧ (e = .moreBytes → HvSafe b n h2.state hv2) ∧ n ≤ b.size ∧
      ((e = .ok ∨ e = .moreBytes) → h2.val.inside n) := by
    intro n e h2 hb2 hh
    simp only [Prod.mk.injEq] at hh
    obtain ⟨rfl, rfl, rfl, rfl⟩ := hh
    exact ⟨hv, rfl, HF, hpnc, rfl, hval, fun _ => ⟨rfl, rfl, rfl, rfl⟩, Or.inl hst, fun _ => ⟨Nat.le_refl _, ho⟩,
      fun _ => H.restate hn1 hn2 (by decide) (by decide), (fun hh => by cases hh), ho, fun _ => hvalI⟩
  unfold parseBody parseFromVal at hr
  simp only at hr''')
    for (kind, hdr, call, st, vf) in kinds:
        A(f'  by_cases h_{kind} : (h.type == {hdr}) = true')
        A(f'  · simp only [h_{kind}, ↓reduceIte] at hr')
        if call is not None:
            lines, fineP, valP, okP, moreP = safe_facts(kind, hdr)
            A(f'    by_cases hp : (!hv.{kind}.parsed) = true')
            A(f'    · simp only [hp, ↓reduceIte] at hr')
            A(f'      rcases hq : {call} with ⟨n1, e1, f1⟩')
            A(f'      rw [hq] at hr; simp only [Prod.mk.injEq] at hr')
            A(f'      obtain ⟨rfl, rfl, rfl, rfl⟩ := hr')
            for l in lines: A('      ' + l)
            A(f'      refine ⟨_, rfl, {mkfine(kind, fineP)}, hpnc, rfl, ?_, (fun hh => by cases hh), Or.inr (by unfold HState.isVal; simp), hrange, ?_, ?_, {nle(kind)}, ?_⟩')
            A(f'      · show (if (e1 == Err.ok) = true then f1.{vf} else h.val).inside b.size')
            A(f'        split')
            A(f'        · exact {valP}')
            A(f'        · exact hval')
            A(f'      · intro he; subst he')
            A(f'        obtain ⟨r1, r2⟩ := hrange (Or.inl rfl)')
            A(f'        have Hm := H.mono r1 r2')
            A(f'        exact {mk(kind, okP)}')
            A(f'      · intro he; subst he')
            A(f'        obtain ⟨r1, r2⟩ := hrange (Or.inr rfl)')
            A(f'        have Hm := H.mono r1 r2')
            A(f'        show HvSafe b n1 HState.{st} _')
            A(f'        exact {mk(kind, moreP)}')
            A(f'      · intro he')
            A(f'        rcases he with rfl | rfl')
            A(f'        · show f1.{vf}.inside n1')
            A(f'          exact {relv(kind)}')
            A(f'        · show h.val.inside n1')
            A(f'          exact PField.inside_mono hvalI (hrange (Or.inr rfl)).1')
            A(f'    · simp only [hp, Bool.false_eq_true, ↓reduceIte] at hr')
            A(f'      exact hskip hr')
        else:
            isct = kind == 'contacts'
            fn = 'parseAllContactValues' if isct else 'parseAllPAIValues'
            A(f'    have hc0 : (if h.state != .{st} then {{ hv.{kind} with hNo := hv.{kind}.hNo + 1, lastHVal := {{}} }} else hv.{kind}) =')
            A(f'        {{ hv.{kind} with hNo := hv.{kind}.hNo + 1, lastHVal := {{}} }} := by rw [hst]; rfl')
            A(f'    rw [hc0] at hr')
            A(f'    have hS := {fn}_safe_new b o hv.{kind} (hv.{kind}.hNo + 1) hfit ho (H.{"ctI hn1" if isct else "paI hn2"}) H.{"ctIn" if isct else "paIn"}')
            A(f'    rcases hq : {fn} b o {{ hv.{kind} with hNo := hv.{kind}.hNo + 1, lastHVal := {{}} }} with ⟨n1, e1, f1⟩')
            A(f'    rw [hq] at hr hS; simp only [Prod.mk.injEq] at hr')
            A(f'    obtain ⟨rfl, rfl, rfl, rfl⟩ := hr')
            A(f'    refine ⟨_, rfl, {mkfine(kind, "hS.1")}, hpnc, rfl, ?_, (fun hh => by cases hh), Or.inr (by unfold HState.isVal; simp), hrange, ?_, ?_, {nle(kind)}, ?_⟩')
            A(f'    · show (if (e1 == Err.ok) = true then f1.lastHVal else h.val).inside b.size')
            A(f'      split')
            A(f'      · exact hS.1.lhv')
            A(f'      · exact hval')
            for (case, tag) in (('ok', 'Or.inl rfl'), ('more', 'Or.inr rfl')):
                A(f'    · intro he; subst he')
                A(f'      obtain ⟨r1, r2⟩ := hrange ({tag})')
                A(f'      have Hm := H.mono r1 r2')
                if case == 'ok':
                    lst = ('(fun hh => by cases hh)', 'fun _ => (hS.2.2.1 rfl).1')
                else:
                    A(f'      show HvSafe b n1 HState.{st} _')
                    lst = ('fun _ => hS.2.1 rfl', 'fun hh => absurd rfl hh')
                inn = '(hS.2.2.1 rfl).2.2' if case == 'ok' else '(hS.2.1 rfl).inn'
                if isct: A(f'      exact {mk(None, None, ct=lst, ctin=inn)}')
                else: A(f'      exact {mk(None, None, pa=lst, pain=inn)}')
            A(f'    · intro he')
            A(f'      rcases he with rfl | rfl')
            A(f'      · show f1.lastHVal.inside n1')
            A(f'        exact {relv(kind)}')
            A(f'      · show h.val.inside n1')
            A(f'        exact PField.inside_mono hvalI (hrange (Or.inr rfl)).1')
        A(f'  simp only [h_{kind}, Bool.false_eq_true, ↓reduceIte] at hr')
    A('  exact hskip hr')
    return '\n'.join(L)

def gen_hlCont():
    L = []
    A = L.append
    A('''/-- **continuing a suspended header-specific value parser never panics** -/
theorem hlCont_safe (b : Buf) (o : Nat) (h : Hdr) (hv : PHdrVals) (ho : o ≤ b.size) (hfit : b.size ≤ 65535)
    (hok : hvOK b o hv) (H : HvSafe b o h.state hv) (hisv : h.state.isVal) (hpnc : h.pnc = false)
    (hname : h.name.inside b.size) (hval : h.val.inside b.size) (hvalI : h.val.inside o) {n : Nat} {e : Err}
    {st' : HLσ}
    (hs : hlCont b o h (some hv) = .done n e st') :
    ∃ hv2, st'.2 = some hv2 ∧ HvFine b hv2 ∧ st'.1.pnc = false ∧ st'.1.name = h.name ∧ st'.1.val.inside b.size ∧
      ((e = .ok ∨ e = .moreBytes) → o ≤ n ∧ n ≤ b.size) ∧
      (e = .ok → st'.1.state = .fin ∧ HvSafe b n .fin hv2) ∧
      (e = .moreBytes → st'.1.state = h.state ∧ HvSafe b n h.state hv2) ∧ n ≤ b.size ∧
      ((e = .ok ∨ e = .moreBytes) → st'.1.val.inside n) := by
  have hmore : e = .moreBytes → o ≤ n ∧ n ≤ b.size := by
    intro he
    subst he
    have := hlCont_restart b #[] o h (some hv) ho hok hs; exact ⟨this.2.2.1, this.2.2.2.1⟩
  have HF := H.fine
  unfold hlCont parseFromVal at hs
  simp only at hs
  cases hst : h.state <;> simp only [hst] at hs H
  case init | name | nameEnd | bodyStart | val | valEnd | fin =>
    rw [hst] at hisv; unfold HState.isVal at hisv; simp at hisv''')
    for (kind, hdr, call, st, vf) in kinds:
        A(f'  case {st} =>')
        if st not in ('hContact',): A(f'    have hn1 : HState.{st} ≠ .hContact := by decide')
        if st not in ('hPAI',): A(f'    have hn2 : HState.{st} ≠ .hPAI := by decide')
        if call is not None:
            lines, fineP, valP, okP, moreP = safe_facts(kind, hdr)
            A(f'    rcases hq : {call} with ⟨n1, e1, f1⟩')
            A(f'    rw [hq] at hs; simp only [Step.done.injEq] at hs')
            A(f'    obtain ⟨rfl, rfl, rfl⟩ := hs')
            A(f'    have hrange : (e1 = .ok ∨ e1 = .moreBytes) → o ≤ n1 ∧ n1 ≤ b.size :=')
            A(f'      fun he => he.elim (fun he => by subst he; exact {okr(kind, hdr)}) hmore')
            for l in lines: A('    ' + l)
            A(f'    refine ⟨_, rfl, {mkfine(kind, fineP)}, ?_, ?_, ?_, hrange, ?_, ?_, {nle(kind)}, ?_⟩')
            A(f'    · show (if (e1 == Err.ok) = true then {{ h with val := f1.{vf}, state := HState.fin }} else h).pnc = false')
            A(f'      split <;> exact hpnc')
            A(f'    · show (if (e1 == Err.ok) = true then {{ h with val := f1.{vf}, state := HState.fin }} else h).name = h.name')
            A(f'      split <;> rfl')
            A(f'    · show (if (e1 == Err.ok) = true then {{ h with val := f1.{vf}, state := HState.fin }} else h).val.inside b.size')
            A(f'      split')
            A(f'      · exact {valP}')
            A(f'      · exact hval')
            A(f'    · intro he; subst he')
            A(f'      obtain ⟨r1, r2⟩ := hrange (Or.inl rfl)')
            A(f'      have Hm := H.mono r1 r2')
            A(f'      exact ⟨rfl, {mk(kind, okP)}⟩')
            A(f'    · intro he; subst he')
            A(f'      obtain ⟨r1, r2⟩ := hrange (Or.inr rfl)')
            A(f'      have Hm := H.mono r1 r2')
            A(f'      exact ⟨(by show h.state = _; exact hst), {mk(kind, moreP)}⟩')
            A(f'    · intro he')
            A(f'      rcases he with rfl | rfl')
            A(f'      · show f1.{vf}.inside n1')
            A(f'        exact {relv(kind)}')
            A(f'      · show h.val.inside n1')
            A(f'        exact PField.inside_mono hvalI (hrange (Or.inr rfl)).1')
        else:
            isct = kind == 'contacts'
            fn = 'parseAllContactValues' if isct else 'parseAllPAIValues'
            A(f'    have hS := {fn}_safe b o hv.{kind} hfit (H.{"ctS" if isct else "paS"} rfl)')
            A(f'    rcases hq : {fn} b o hv.{kind} with ⟨n1, e1, f1⟩')
            A(f'    rw [hq] at hs hS; simp only [Step.done.injEq] at hs')
            A(f'    obtain ⟨rfl, rfl, rfl⟩ := hs')
            A(f'    have hrange : (e1 = .ok ∨ e1 = .moreBytes) → o ≤ n1 ∧ n1 ≤ b.size :=')
            A(f'      fun he => he.elim (fun he => by subst he; exact {okr(kind, hdr)}) hmore')
            A(f'    refine ⟨_, rfl, {mkfine(kind, "hS.1")}, ?_, ?_, ?_, hrange, ?_, ?_, {nle(kind)}, ?_⟩')
            A(f'    · show (if (e1 == Err.ok) = true then {{ h with val := f1.lastHVal, state := HState.fin }} else h).pnc = false')
            A(f'      split <;> exact hpnc')
            A(f'    · show (if (e1 == Err.ok) = true then {{ h with val := f1.lastHVal, state := HState.fin }} else h).name = h.name')
            A(f'      split <;> rfl')
            A(f'    · show (if (e1 == Err.ok) = true then {{ h with val := f1.lastHVal, state := HState.fin }} else h).val.inside b.size')
            A(f'      split')
            A(f'      · exact hS.1.lhv')
            A(f'      · exact hval')
            for (case, tag) in (('ok', 'Or.inl rfl'), ('more', 'Or.inr rfl')):
                A(f'    · intro he; subst he')
                A(f'      obtain ⟨r1, r2⟩ := hrange ({tag})')
                A(f'      have Hm := H.mono r1 r2')
                if case == 'ok':
                    lst = ('(fun hh => by cases hh)', 'fun _ => (hS.2.2.1 rfl).1')
                    first = 'rfl'
                else:
                    lst = ('fun _ => hS.2.1 rfl', 'fun hh => absurd rfl hh')
                    first = '(by show h.state = _; exact hst)'
                inn = '(hS.2.2.1 rfl).2.2' if case == 'ok' else '(hS.2.1 rfl).inn'
                if isct: A(f'      exact ⟨{first}, {mk(None, None, ct=lst, ctin=inn)}⟩')
                else: A(f'      exact ⟨{first}, {mk(None, None, pa=lst, pain=inn)}⟩')
            A(f'    · intro he')
            A(f'      rcases he with rfl | rfl')
            A(f'      · show f1.lastHVal.inside n1')
            A(f'        exact {relv(kind)}')
            A(f'      · show h.val.inside n1')
            A(f'        exact PField.inside_mono hvalI (hrange (Or.inr rfl)).1')
    return '\n'.join(L)

if __name__ == '__main__':
    import sys
    print(gen_parseBody())
    print()
    print(gen_hlCont())
