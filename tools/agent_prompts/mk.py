#!/usr/bin/env python3
# mk.py NAME PROP FILE... < task-text   -> writes NAME.txt (header + common.txt + files + task + budget)
import sys, json
name, prop, files = sys.argv[1], sys.argv[2], sys.argv[3:]
task = sys.stdin.read().strip()
P = {json.loads(l)['id']: json.loads(l) for l in open('/verif/properties.jsonl')}
p = P[prop]
common = open('/verif/tools/agent_prompts/common.txt').read().strip()
fl = ", ".join("Sipsp/Proofs/%s.lean" % f for f in files)
out = f"""You are a Lean 4 proof engineer working on machine-checked theorems about a model of a Go SIP parser. Main property concerned: {prop} — {p['title']}:
"{p['statement']}"

{common}

YOUR FILES: {fl} (`namespace Sipsp`; create it; if it ALREADY EXISTS it is partial work of an engineer who was interrupted: read it, keep what compiles, continue from there). You deliver lemma files only; the coordinator will re-export your final theorems in the Properties files. Several other engineers' files exist in Sipsp/Proofs: choose theorem / definition names that are unlikely to clash (prefix new definitions, e.g. with the initials of your file), and at the end check for clashes by compiling a scratch file under /tmp that imports `Sipsp` (the root module, already built) AND your module.

{task}

Budget: work for up to about four hours of wall time; get a first useful theorem fully compiling early, keep the file compiling at all times, and finish with `lake build` of your module(s) succeeding.
"""
open(f'/verif/tools/agent_prompts/{name}.txt', 'w').write(out)
print(len(out))
