#!/usr/bin/env python3
# mk_round6.py : writes one prompt per property for the sixth round of seeded changes (/tmp/mut6/prompts/Cxx.txt)
import json, os
os.makedirs('/tmp/mut6/prompts', exist_ok=True)
for l in open('/verif/properties.jsonl'):
    p = json.loads(l); pid = p['id']
    out = f"""You are testing a verification setup from the outside. You get ONE semantic property of the Go library
intuitivelabs/sipsp (incremental, resumable SIP message parser) and a scratch git worktree of the repository at
/tmp/mut6/{pid} (work ONLY there; never read or touch /repo or /verif; no network: export GOFLAGS=-mod=mod GOPROXY=off
GOSUMDB=off GOTOOLCHAIN=local in every shell call).

PROPERTY {pid} — {p['title']}:
"{p['statement']}"
(quantifier: {p['quantifier']})

Produce TWO different, independent changes to the library's non-test source, each of which BREAKS this property while
the code still compiles and the repository's existing test suite (`go test -vet=off -count=1 ./...`, randomised: run it
5 times) still passes. Each must be a change a maintainer could make in good faith (a fix attempt, an optimisation, a
clean-up, a new guard, a changed bound) and each must need SOMETHING SPECIFIC TO MANIFEST — at least one of:
  * a particular chunk boundary / resumption point (e.g. the buffer ending exactly between two particular bytes, or a
    suspension in one particular parser state followed by a particular next byte);
  * a multi-step sequence of operations on ONE object (parse, suspend or fail, Reset / Init, re-use with other
    capacities or a shorter / longer input; a second header of the same kind; a second message in the same buffer);
  * an unusual but legal input shape (rare state-machine path, rare delimiter combination, boundary number, boundary
    length or capacity, non-zero start offset near the 16-bit limit);
  * TWO COOPERATING SITES that each look fine alone (e.g. one site stops maintaining a field on a rare path and another
    site relies on it; a helper whose contract is changed slightly and one of several callers that depended on the old
    contract) — at least ONE of your two changes should be of this two-site kind.
Not acceptable: a change that ordinary use (a typical valid message parsed in one call) would expose at once; a change
in the first `if` of a main function; build tags, debug output, randomness, time, goroutines. Choose two different
functions (preferably different files), and prefer less obvious places: the lexical helpers (skipLWS / skipCRLF /
skipToken…), resume paths (`soffs`, saved states), `Reset` / `Init` of the small objects, the list wrappers, lookup
helpers, views, rarely taken `case` branches. Changes apply to the ORIGINAL tree separately (not cumulative). Diff size
1–40 lines each.
Deliver in /tmp/mut6/out/{pid}_1 and /tmp/mut6/out/{pid}_2 (create the directories), each with:
  patch.diff      `git diff` of the worktree (source change only; applies with `git apply` to the original tree)
  zz_demo_test.go a Go test `TestDemo…` in package sipsp that FAILS with the change and PASSES without it (shows the
                  violation of the property on a concrete input / call sequence; self-contained)
  why.txt         first line: a plausible commit message; then 5–10 lines: what changed, why it breaks the property as
                  stated, the witness input / call sequence, exactly what it needs to manifest, what still works
Verify yourself, for each: suite passes with the patch (5 runs); demo fails with it and passes on the original (save the change with
`git diff > /tmp/.../p.diff`, `git checkout -- .`, later `git apply` — do NOT use `git stash`: the stash is shared by all
worktrees of the repository and other testers work in parallel; leave the worktree clean at the end, no demo file). Finish with a
short summary per change.
"""
    open(f'/tmp/mut6/prompts/{pid}.txt', 'w').write(out)
    if pid == 'C07':
        open('/verif/tools/agent_prompts/mutants/round6_example_C07.txt', 'w').write(out)
