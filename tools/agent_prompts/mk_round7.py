#!/usr/bin/env python3
# mk_round7.py : seventh round of seeded changes — one prompt per (property, list of less-travelled functions)
import json, os
P = {json.loads(l)['id']: json.loads(l) for l in open('/verif/properties.jsonl')}
targets = {
 'C04': 'ip_prefix.go (IP6Prefix, ContainsIP6: group index / colon counting / bracket handling / dst of odd sizes), hex2i.go, msg_sig.go (GetMsgSig array indexing, getStrCharsSig skip window)',
 'C19': 'msg_sig.go: getStrCharsSig (hex / base64 / decimal block classification, separator bits, the skipped address window), GetCallIDSig (length byte, position bits), MsgSig.String, GetHdrSigId',
 'C13': 'parse_headers.go HdrLst.SetHdr / GetHdr and the scratch header; parse_pai.go (fixed two slots, first / last); parse_uri_params.go / parse_uri_hdrs.go (tmp element, More, PNo / HNo)',
 'C12': 'Reset / Init of the SMALL objects: URIHdrsLst, URIParamsLst, PTokParam, PPAIs, HdrLst, PHdrVals.Init, PFLine.Reset, PUIntBody / PCSeqBody / PCallIDBody Reset — and the code that relies on their zero state',
 'C18': 'sipuri.go: Flat, Short, Long, Truncate, and the empty-but-present component conventions they share with AdjustOffs',
 'C10': 'parse_from.go setFromParamVal (q value arithmetic: integer part, 1-3 decimals, the <= 1 bound; expires saturation), pUInt64Val, parse_fline.go status digits, parse_clen.go MaxClenValue / digit-count limits',
 'C03': 'parse_utils.go skipCRLF / skipLWS / skipWS / skipToken / skipLine, parse_params.go SkipQuoted, parse_clen.go ParseCLenVal / ParseUIntVal, parse_callid.go — verdicts given before the deciding byte has arrived',
 'C11': 'parse_params.go ParseTokenParam (All / Name / Val spans), parse_uri_params.go / parse_uri_hdrs.go list wrappers, parse_cseq.go, parse_callid.go, parse_clen.go — anything that stores or compares an ABSOLUTE position (== 0 sentinels, offs+const guards)',
 'C05': 'parse_msg.go body / RawMsg / Buf extents, parse_headers.go first-of-type shortcuts (SetHdr), PHdrVals shortcuts (Callid, CLen, Expires, CSeq), LastHVal / Hdr.Val of Contact and P-Asserted-Identity lines',
 'C02': 'parse_pai.go ParseOnePAI / ParseAllPAIValues, parse_cseq.go, parse_callid.go, parse_clen.go, parse_fline.go resume states (flReqURI, flRplReason …), SkipQuoted — suspension offsets and saved state',
 'C14': 'sipuri.go ParseURI: tel: handling, bracketed hosts ([..] states), the password / port back-tracking (passOffs, foundUser), errHeaders, scheme matching',
 'C09': 'parse_from.go: star contact, q / expires / lr / tag resolution (letter case, value-less forms), quoted display names with escapes, bare-URI parameters; parse_pai.go value mapping; parse_contact.go Min/MaxExpires',
}
for pid, funcs in targets.items():
    p = P[pid]
    out = f"""You are testing a verification setup from the outside. You get ONE semantic property of the Go library
intuitivelabs/sipsp (incremental, resumable SIP message parser) and a scratch git worktree of the repository at
/tmp/mut7/{pid} (work ONLY there; never read or touch /repo or /verif; no network: export GOFLAGS=-mod=mod GOPROXY=off
GOSUMDB=off GOTOOLCHAIN=local in every shell call).

PROPERTY {pid} — {p['title']}:
"{p['statement']}"
(quantifier: {p['quantifier']})

Produce TWO different, independent changes to the library's non-test source, each of which BREAKS this property while
the code still compiles and the repository's existing test suite (`go test -vet=off -count=1 ./...`, randomised: run it
5 times) still passes. Earlier rounds of this exercise concentrated on the big parsers' main paths; this round is about
the LESS-TRAVELLED code. Put your changes in (or make them manifest through) these places:
    {funcs}
Each change must be one a maintainer could make in good faith (a fix attempt, an optimisation, a clean-up, a new guard, a
changed bound or constant, a re-ordered test) and must need SOMETHING SPECIFIC TO MANIFEST: a particular input shape,
boundary value, capacity, chunk boundary, or a multi-step sequence of operations on one object (parse / suspend / Reset /
re-use), or TWO COOPERATING SITES that each look fine alone. Not acceptable: a change that ordinary use (a typical valid
message parsed in one call) would expose at once; build tags, debug output, randomness, time, goroutines. Choose two
different functions. Changes apply to the ORIGINAL tree separately (not cumulative). Diff size 1–40 lines each.
Deliver in /tmp/mut7/out/{pid}_1 and /tmp/mut7/out/{pid}_2 (create the directories), each with:
  patch.diff      `git diff` of the worktree (source change only; applies with `git apply` to the original tree)
  zz_demo_test.go a Go test `TestDemo…` in package sipsp that FAILS with the change and PASSES without it (shows the
                  violation of the property on a concrete input / call sequence; self-contained)
  why.txt         first line: a plausible commit message; then 5–10 lines: what changed, why it breaks the property as
                  stated, the witness input / call sequence, exactly what it needs to manifest, what still works
Verify yourself, for each: suite passes with the patch (5 runs); demo fails with it and passes on the original (save the change with
`git diff > /tmp/.../p.diff`, `git checkout -- .`, later `git apply` — do NOT use `git stash`: the stash is shared by all
worktrees of the repository and other testers work in parallel; leave the worktree clean at the end, no demo file). Finish with a
short summary per change.
"""
    open(f'/tmp/mut7/prompts/{pid}.txt', 'w').write(out)
    if pid == 'C13':
        open('/verif/tools/agent_prompts/mutants/round7_example_C13.txt', 'w').write(out)
print(len(targets))
