#!/bin/bash
# dev helper: run harness check + model diff for one property
p=$1; tier=${2:-quick}; seed=${3:-1}
d=/verif/.build/run/$p
rm -rf $d; mkdir -p $d
/usr/bin/time -f "impl+oracle %es" /verif/.build/harness check $p $tier $seed $d
/usr/bin/time -f "model %es" /verif/lean/.lake/build/bin/driver < $d/sessions.txt > $d/model.out
python3 - $d <<'PY'
import sys,json
d=sys.argv[1]
a=open(d+'/impl.out').read().split('\n'); b=open(d+'/model.out').read().split('\n'); s=open(d+'/sessions.txt').read().split('\n')
nd=0
for i,(x,y) in enumerate(zip(a,b)):
    if x!=y:
        nd+=1
        if nd<=4:
            print("MODEL-DIFF line",i,s[i][:200])
            xs=x.split(' '); ys=y.split(' ')
            for k,(p,q) in enumerate(zip(xs,ys)):
                if p!=q: print("   impl:",' '.join(xs[max(0,k-4):k+3]),"\n   modl:",' '.join(ys[max(0,k-4):k+3])); break
            else: print("   len differs", len(xs),len(ys), '|impl:',x[-100:],'|model:',y[-100:])
print("model diffs:",nd,"of",len(a)-1)
r=json.load(open(d+'/result.json'))
print("violations:",len(r['violations']))
seen=set()
for v in r['violations']:
    k=(v['kind'],v['what'][:60])
    if k in seen: continue
    seen.add(k)
    if len(seen)>6: break
    print(" VIOL",v['kind'],'::',v['what'][:400]); print("     ",v['sessions'][0][:300])
PY
