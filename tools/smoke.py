import subprocess
def hx(s): return s.encode('latin1').hex() if s else '-'
CRLF="\r\n"
msg="INVITE sip:bob@biloxi.com SIP/2.0\r\nVia: SIP/2.0/UDP pc33.atlanta.com;branch=z9hG4bK776asdhds\r\nMax-Forwards: 70\r\nTo: Bob <sip:bob@biloxi.com>\r\nFrom: Alice <sip:alice@atlanta.com>;tag=1928301774\r\nCall-ID: a84b4c76e66710@pc33.atlanta.com\r\nCSeq: 314159 INVITE\r\nContact: <sip:alice@pc33.atlanta.com>;expires=60;q=0.5, \"x\" <sip:c@d>;lr\r\nP-Asserted-Identity: <sip:a@b>\r\nContent-Length: 4\r\n\r\nbodyNEXT"
L=len(msg)
H=hx(msg)
lines=[
 "msg - - | B %s | P %d 0 0 | O | G" % (H,L),
 "msg 3 1 | B %s | P 20 0 0 | P 100 c 0 | P %d c 0 | O | G | R | P %d 0 1 | O" % (H,L,L),
 "fline | B %s | P 17 0 0 | O" % hx("SIP/2.0 200 OK\r\nX"),
 "nameaddr 8 | B %s | P 40 0 0 | O" % hx("<sip:a@b>;expires=5 , <sip:c@d>\r\nX"),
 "contacts 1 | B %s | P 50 0 0 | O" % hx("<sip:a@b>;expires=5 , <sip:c@d>;q=0.123\r\nX"),
 "uri | B %s | P 100 0 0 | O | V | A 10 50 | O | T | V" % hx("sip:user:pw@host.com:5060;lr;x=y?h=1"),
 "uricmp 0 %s %s %s %s" % (hx("sip:a@B.com;x=1;y=2"),hx("SIP:a@b.COM;Y=2;X=1"),hx("sip:a@b"),hx("sip:A@b")),
 "ip4prefix %s" % hx("1.2.3.4x"), "containsip4 %s" % hx("abc1.2.3.444.1.2.3"), "ip6prefix %s" % hx("[::1]:5"), "containsip6 %s" % hx("xx fe80::1 yy"),
 "hdrtype %s" % hx("Call-ID"), "hdrtype -", "methodno %s" % hx("INVITE"), "methodname 3",
 "callidsig %s" % hx("a84b4c76e66710@192.168.1.1"), "viabrsig %s" % hx("SIP/2.0/UDP h;branch=z9hG4bK776asdhds"),
 "tokparam | B %s | P 8 0 4 | O" % hx('p="v"bar'), "uriparams 2 | B %s | P 20 0 72 | O" % hx("a=1;transport=tcp;lr"),
 "urihdrs 2 | B %s | P 9 0 8 | O" % hx("a=1&b=2&c"), "tokallowed 64", "lower", "skipquoted %s 8 0" % hx('ab\\"c"d'),
 "uriparamseq %s 0 %s 0" % (hx("a=1;b=2"),hx("B=2;A=1")), "lws %s 5 0 0" % hx(" \r\n x"),
 "headers 2 1 2 | B %s | P 200 0 0 | O" % hx("Foo: bar\r\nContact: <sip:a@b>\r\nContact: <sip:c@d>\r\n\r\n"),
 "strsig %s 0 0" % hx("a84b4c76e66710-deadbeef"), "hdrsigid 8 1",
]
open('/tmp/t.in','w').write("\n".join(lines)+"\n")
a=subprocess.run(['/verif/.build/harness','run'],stdin=open('/tmp/t.in'),capture_output=True,text=True).stdout.splitlines()
b=subprocess.run(['/verif/lean/.lake/build/bin/driver'],stdin=open('/tmp/t.in'),capture_output=True,text=True).stdout.splitlines()
print(len(a),len(b))
for i,(x,y) in enumerate(zip(a,b)):
    if x!=y:
        print("DIFF",i,lines[i][:60]); 
        xs=x.split(' '); ys=y.split(' ')
        for k,(p,q) in enumerate(zip(xs,ys)):
            if p!=q: print("   impl:",' '.join(xs[max(0,k-3):k+3]),"\n   modl:",' '.join(ys[max(0,k-3):k+3])); break
        else: print("  len differs", len(x), len(y), x[-80:], '|||', y[-80:])
    else: print("same",i,x[:150])
