import Sipsp.Properties.C17
open Sipsp
-- is Reset() of a clean list Fresh?  (not stated anywhere in C17)
theorem reset_fresh {l : URIParamsLst} (h : plClean l) : l.reset.Fresh := by
  have hsz : l.reset.params.size = l.params.size := clearUpToP_size _ _ _
  refine ⟨fun i x _ hx => ?_, rfl⟩
  have hi : i < l.reset.params.size := by
    rcases Nat.lt_or_ge i l.reset.params.size with h | h
    · exact h
    · rw [Array.getElem?_eq_none h] at hx; cases hx
  have hk : i < l.params.size := by rw [← hsz]; exact hi
  have e1 : l.reset.params[i]! = x := by
    rw [getElem!_def, hx]
  rw [← e1]
  show (clearUpToP l.params {} l.n)[i]! = {}
  rw [clearUpToP_get _ _ _ _ hk]
  split
  · rfl
  · exact h.1 i (by omega) hk
