import Sipsp.Properties.C06
open Sipsp
-- is the link to parseSIPMsg cheap?
theorem link (b : Buf) (o o1 h : Nat) (m : PSIPMsg) (flags : Nat) (fl : PFLine) (hl : HdrLst) (hb : Option PHdrVals)
    (hst : m.state = .init) (hf : parseFLine b o m.fl = (o1, .ok, fl))
    (hh : parseHeaders b o1 m.hl (some m.pv) = (h, .ok, hl, hb)) :
    parseSIPMsg b o m flags =
      msgBody b h { m with offs := o, fl := fl, hl := hl, pv := hb.getD m.pv, state := .body } flags := by
  unfold parseSIPMsg; rw [hst]; simp only
  unfold msgFLine; simp only [hf]
  unfold msgHeaders; simp only [hh]
#print axioms link
-- degenerate pipeline instances
example : smCat ([] : List Buf) = #[] := rfl
#eval (parseSIPMsg #[] 0 (({}:PSIPMsg).init 0 none none) 0).2.1
