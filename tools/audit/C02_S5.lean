import Sipsp.Properties.C02
open Sipsp

def hdrsP : Parser (HdrLst × Option PHdrVals) := fun b o st => parseHeaders b o st.1 st.2
def hdrsInv (b : Buf) (o : Nat) (st : HdrLst × Option PHdrVals) : Prop :=
  hlsOK b st.1 ∧ hbOK b o st.2 ∧ hlsPend st.1 st.2 ∧ o ≤ b.size

theorem hdrs_resumableR : ResumableR hdrsP hdrsInv hdrsObs := by
  intro b s o st o' st' hI hr
  obtain ⟨h1, h2, h3, h4⟩ := hI
  obtain ⟨hl', hb'⟩ := st'
  have := Sipsp.C02.resume_headers b s o st.1 st.2 h1 h2 h3 h4 hr
  obtain ⟨r, a, b', c, d, e⟩ := this
  exact ⟨r, a, b', c, by rw [Array.size_append]; omega⟩

theorem schedule_headers (o : Nat) (hl : HdrLst) (hb : Option PHdrVals) (l : List Buf) (hg : Growing l)
    (h0 : ∀ b ∈ l.head?, hdrsInv b o (hl, hb)) :
    RR hdrsObs (resumeRun hdrsP o (hl, hb) l) (oneShotRun hdrsP o (hl, hb) l) :=
  resumeRun_eq_oneShotR hdrsP hdrsInv hdrsObs hdrs_resumableR o (hl, hb) l hg h0

def flP : Parser PFLine := parseFLine
theorem fl_resumableRC : ResumableRC flP (fun b o pl => o ≤ b.size ∧ flOK pl) (fun x => x) (fun b => b.size ≤ 65535) := by
  intro b s o st o' st' hC hI hr
  obtain ⟨a, b', c⟩ := Sipsp.C02.resume_fline b s o st hI.1 hI.2 hC hr
  exact ⟨RR.of_eq a, by rw [Array.size_append]; omega, b'⟩
