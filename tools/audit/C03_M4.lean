import Sipsp.Properties.C03
open Sipsp

theorem msgBody_stable_err (b s : Buf) (o : Nat) (m : PSIPMsg) (flags : Nat) (ho : o ≤ b.size)
    (hnf : hasFlag flags SIPMsgNoMoreDataF = false)
    (he : (msgBody b o m flags).2.1 ≠ .moreBytes) (hne : (msgBody b o m flags).2.1 ≠ .ok) :
    msgBody (b ++ s) o m flags = msgBody b o m flags := by
  by_cases hx : bodyToEnd flags m
  · exfalso
    obtain ⟨h1, h2, h3⟩ := hx
    apply hne
    unfold msgBody
    simp only [h1, h2, h3, Bool.false_eq_true, ↓reduceIte, msgEnd]
  · exact msgBody_stable b s o m flags ho hnf hx he

theorem msgHeaders_stable_err (b s : Buf) (o : Nat) (m : PSIPMsg) (flags : Nat) (ho : o ≤ b.size)
    (hok1 : hlsOK b m.hl) (hok2 : hvOK b o m.pv)
    (hnf : hasFlag flags SIPMsgNoMoreDataF = false)
    (he : (msgHeaders b o m flags).2.1 ≠ .moreBytes) (hne : (msgHeaders b o m flags).2.1 ≠ .ok) :
    msgHeaders (b ++ s) o m flags = msgHeaders b o m flags := by
  unfold msgHeaders at he hne ⊢
  rcases hp : parseHeaders b o m.hl (some m.pv) with ⟨o1, e1, hl1, hb1⟩
  rw [hp] at he hne
  by_cases hm : e1 = .moreBytes
  · subst hm
    simp only at he
    rw [msgErr_verdict _ _ _ _ hnf] at he
    exact absurd rfl he
  · rw [parseHeaders_stable b s o m.hl (some m.pv) hok1 hok2 hp hm]
    cases e1 <;> simp only at he hne ⊢
    have hpost := parseHeaders_post b o m.hl (some m.pv) hok1 hok2 hp
    exact msgBody_stable_err b s o1 _ flags hpost.1 hnf he hne

theorem msgFLine_stable_err (b s : Buf) (o : Nat) (m : PSIPMsg) (flags : Nat) (hok : msgOK b o m)
    (hfit : b.size ≤ 65535) (hnf : hasFlag flags SIPMsgNoMoreDataF = false)
    (he : (msgFLine b o m flags).2.1 ≠ .moreBytes) (hne : (msgFLine b o m flags).2.1 ≠ .ok) :
    msgFLine (b ++ s) o m flags = msgFLine b o m flags := by
  obtain ⟨ho, hfl, hls, hvs⟩ := hok
  unfold msgFLine at he hne ⊢
  rcases hp : parseFLine b o m.fl with ⟨o1, e1, fl1⟩
  rw [hp] at he hne
  by_cases hm : e1 = .moreBytes
  · subst hm
    simp only at he
    rw [msgErr_verdict _ _ _ _ hnf] at he
    exact absurd rfl he
  · rw [parseFLine_stable b s o m.fl hfl hfit hp hm]
    cases e1 <;> simp only at he hne ⊢
    have hrg := parseFLine_range b o m.fl ho
    rw [hp] at hrg
    have hrg' := hrg rfl
    exact msgHeaders_stable_err b s o1 _ flags hrg'.2 hls (hvOK_mono hvs hrg'.1 hrg'.2) hnf he hne

/-- every ERROR verdict is stable, whatever the flags (without no-more-data) and whether or not Content-Length was seen -/
theorem parseSIPMsg_stable_err (b s : Buf) (o : Nat) (m : PSIPMsg) (flags : Nat) (hok : msgOK b o m)
    (hfit : b.size ≤ 65535) (hnf : hasFlag flags SIPMsgNoMoreDataF = false)
    {o' : Nat} {e : Err} {m' : PSIPMsg} (hr : parseSIPMsg b o m flags = (o', e, m'))
    (he : e ≠ .moreBytes) (hne : e ≠ .ok) :
    parseSIPMsg (b ++ s) o m flags = (o', e, m') := by
  rw [← hr]
  have he' : (parseSIPMsg b o m flags).2.1 ≠ .moreBytes := by rw [hr]; exact he
  have hne' : (parseSIPMsg b o m flags).2.1 ≠ .ok := by rw [hr]; exact hne
  unfold parseSIPMsg at he' hne' ⊢
  cases hst : m.state <;> simp only [hst] at he' hne' ⊢
  case init => exact msgFLine_stable_err b s o _ flags hok hfit hnf he' hne'
  case fline => exact msgFLine_stable_err b s o m flags hok hfit hnf he' hne'
  case headers => exact msgHeaders_stable_err b s o m flags hok.1 hok.2.2.1 hok.2.2.2 hnf he' hne'
  case body => exact msgBody_stable_err b s o m flags hok.1 hnf he' hne'
#print axioms parseSIPMsg_stable_err
