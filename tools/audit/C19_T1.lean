import Sipsp.Properties.C19
open Sipsp
def rep000 : Buf := "SIP/2.0 000 OK\r\nVia: SIP/2.0/UDP h;branch=z9hG4bK-a.b\r\nf: <sip:a@b>;tag=a-1\r\nTo: <sip:c@d>\r\nCall-ID: x@1.2.3.4\r\nCSeq: 1 INVITE\r\nContent-Length: 0\r\n\r\n".toUTF8.data
def r0 := parseSIPMsg rep000 0 (({} : PSIPMsg).init 0 none none) 0
#eval (r0.1, r0.2.1, r0.2.2.request, r0.2.2.fl.status, (getMsgSig r0.2.2 rep000).2.1, (getMsgSig r0.2.2 rep000).1.toStr)
#check @Sipsp.C19.reply_no_signature
#print PFLine.request
