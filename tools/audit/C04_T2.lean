import Sipsp.Properties.C02
import Sipsp.Properties.C04
open Sipsp
#check @parseTokenParam_range_end
#check @parseTokenParam_mv_start_end
theorem viaBr_guard (b : Buf) (offs next : Nat) (p : PTokParam) (ho : offs ≤ b.size)
    (hp : parseTokenParam b offs {} viaBrFlags = (next, .moreValues, p)) : offs < next ∧ next ≤ b.size := by
  have e : viaBrFlags = (17 ||| POptInputEndF) := by decide
  rw [e] at hp
  have hf : hasFlag 17 POptInputEndF = false := by decide
  have hr := parseTokenParam_range_end b offs {} 17 hf ho hp
  refine ⟨?_, hr.2⟩
  rcases Nat.lt_or_ge offs next with h | h
  · exact h
  · have : next = offs := by omega
    subst this
    have := parseTokenParam_mv_start_end b next {} 17 hf hp
    cases this
