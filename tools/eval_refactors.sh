#!/bin/bash
# eval_refactors.sh [tier] : applies each behaviour-preserving refactoring (/verif/refactors/r*.diff) to /repo,
# runs ALL 20 checks, undoes it. A refactoring must not raise an alarm; prints one line per (refactor, failing check).
tier=${1:-quick}
cd /verif
# evidence files must describe runs against the unchanged tree: keep them aside while a change is applied
rm -rf /tmp/evidence.keep; cp -r /verif/evidence /tmp/evidence.keep
trap 'rm -rf /verif/evidence; cp -r /tmp/evidence.keep /verif/evidence; rm -rf /tmp/evidence.keep' EXIT
for f in /verif/refactors/r*.diff; do
  id=$(basename $f .diff)
  if ! git -C /repo apply --check $f 2>/dev/null; then echo "$id: patch does not apply"; continue; fi
  git -C /repo apply $f
  bad=0
  for n in 01 02 03 04 05 06 07 08 09 10 11 12 13 14 15 16 17 18 19 20; do
    out=$(./check C$n $tier 2>&1); rc=$?
    if [ $rc -ne 0 ]; then bad=$((bad+1)); echo "$id C$n rc=$rc :: $(echo "$out" | grep -m1 '^VIOLATION') :: $(echo "$out" | tail -1)"; fi
  done
  git -C /repo checkout -- .
  git -C /repo clean -fdq
  echo "$id: $bad alarms"
done
