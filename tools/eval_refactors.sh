#!/bin/bash
# eval_refactors.sh [tier] [ids...] : applies each behaviour-preserving refactoring (/verif/refactors/r*.diff) to a
# scratch worktree of /repo (VERIF_REPO, so /repo itself stays untouched), runs ALL 20 checks, undoes it. A refactoring
# must not raise an alarm; prints one line per (refactor, failing check) and one summary line per refactoring.
V=$(dirname "$(dirname "$(readlink -f "$0")")")   # /verif, or a snapshot of it
tier=${1:-quick}; shift
ids="$@"; [ -z "$ids" ] && ids=$(ls $V/refactors/r*.diff | xargs -n1 basename | sed 's/\.diff$//' | sort -V)
wt=/tmp/evalrf.$$
git -C /repo worktree add -q --detach $wt HEAD || exit 2
cd $V
export VERIF_EVIDENCE=/tmp/evidence.eval.$$   # evidence of these runs is scratch
trap 'rm -rf /tmp/evidence.eval.$$; git -C /repo worktree remove --force '$wt'; env -u VERIF_REPO flock '$V'/.build/lock '$V'/build.sh >/dev/null 2>&1' EXIT   # the last line regenerates lean/Sipsp/Generated from /repo itself
for id in $ids; do
  f=$V/refactors/$id.diff
  if ! git -C $wt apply --check $f 2>/dev/null; then echo "$id: patch does not apply"; continue; fi
  git -C $wt apply $f
  bad=0
  for n in 01 02 03 04 05 06 07 08 09 10 11 12 13 14 15 16 17 18 19 20; do
    out=$(VERIF_REPO=$wt ./check C$n $tier 2>&1); rc=$?
    if [ $rc -ne 0 ]; then bad=$((bad+1)); echo "$id C$n rc=$rc :: $(echo "$out" | grep -m1 '^VIOLATION') :: $(echo "$out" | tail -1)"; fi
  done
  git -C $wt checkout -- .
  git -C $wt clean -fdq
  echo "$id: $bad alarms"
done
