module verif/mutsurvey

go 1.21
