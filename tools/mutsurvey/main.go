// mutsurvey: enumerates simple first-order mutations of the non-test Go sources of a package directory and prints
// them as JSON lines {file, off, len, repl, desc, func, line}. The driver (mutsurvey.py) applies one at a time to a
// scratch copy, builds the harness against it and replays a sample of the checks' own sessions: a mutant whose outputs
// equal the original's on every sampled session is a SURVIVOR — either an equivalent mutant or a place the generators
// do not reach. (A development aid for widening the generators; not part of any check.)
package main

import (
	"encoding/json"
	"fmt"
	"go/ast"
	"go/parser"
	"go/token"
	"os"
	"path/filepath"
	"sort"
	"strings"
)

type Mut struct {
	File string `json:"file"`
	Off  int    `json:"off"`
	Len  int    `json:"len"`
	Repl string `json:"repl"`
	Desc string `json:"desc"`
	Func string `json:"func"`
	Line int    `json:"line"`
}

func main() {
	dir := os.Args[1]
	names, _ := filepath.Glob(filepath.Join(dir, "*.go"))
	sort.Strings(names)
	enc := json.NewEncoder(os.Stdout)
	for _, n := range names {
		base := filepath.Base(n)
		if strings.HasSuffix(n, "_test.go") || strings.HasPrefix(base, "log_") || strings.HasPrefix(base, "zz_") {
			continue
		}
		src, _ := os.ReadFile(n)
		fset := token.NewFileSet()
		f, err := parser.ParseFile(fset, n, src, 0)
		if err != nil {
			fmt.Fprintln(os.Stderr, err)
			os.Exit(1)
		}
		for _, d := range f.Decls {
			fd, ok := d.(*ast.FuncDecl)
			if !ok || fd.Body == nil || fd.Name.Name == "init" {
				continue
			}
			fname := fd.Name.Name
			emit := func(pos token.Pos, ln int, repl, desc string) {
				p := fset.Position(pos)
				enc.Encode(Mut{base, p.Offset, ln, repl, desc, fname, p.Line})
			}
			ast.Inspect(fd.Body, func(nd ast.Node) bool {
				switch x := nd.(type) {
				case *ast.CallExpr:
					// do not mutate inside logging / panic calls
					if id, ok := x.Fun.(*ast.Ident); ok {
						switch id.Name {
						case "BUG", "DBG", "ERR", "WARN", "panic":
							return false
						}
					}
				case *ast.BinaryExpr:
					swap := map[token.Token][]string{
						token.LSS: {"<="}, token.LEQ: {"<"}, token.GTR: {">="}, token.GEQ: {">"},
						token.EQL: {"!="}, token.NEQ: {"=="}, token.LAND: {"||"}, token.LOR: {"&&"},
						token.ADD: {"-"}, token.SUB: {"+"},
					}
					for _, r := range swap[x.Op] {
						emit(x.OpPos, len(x.Op.String()), r, x.Op.String()+" -> "+r)
					}
				case *ast.BasicLit:
					if x.Kind == token.INT && len(x.Value) <= 6 && !strings.HasPrefix(x.Value, "0x") {
						var v int
						fmt.Sscanf(x.Value, "%d", &v)
						emit(x.Pos(), len(x.Value), fmt.Sprint(v+1), x.Value+" -> +1")
						if v > 0 {
							emit(x.Pos(), len(x.Value), fmt.Sprint(v-1), x.Value+" -> -1")
						}
					}
					if x.Kind == token.CHAR && len(x.Value) == 3 {
						emit(x.Pos(), len(x.Value), fmt.Sprintf("'%c'", x.Value[1]+1), x.Value+" -> next char")
					}
				case *ast.AssignStmt:
					// delete a plain assignment / op-assignment to a field or a variable (not a definition)
					if x.Tok != token.DEFINE && len(x.Lhs) == 1 {
						end := fset.Position(x.End()).Offset
						st := fset.Position(x.Pos()).Offset
						lhs := string(src[st:fset.Position(x.Lhs[0].End()).Offset])
						emit(x.Pos(), end-st, "_ = "+lhs, "delete assignment to "+lhs)
					}
				case *ast.ExprStmt:
					if c, ok := x.X.(*ast.CallExpr); ok {
						if sel, ok := c.Fun.(*ast.SelectorExpr); ok {
							switch sel.Sel.Name {
							case "Reset", "Set", "Extend":
								end := fset.Position(x.End()).Offset
								st := fset.Position(x.Pos()).Offset
								emit(x.Pos(), end-st, "{}", "delete call "+string(src[st:fset.Position(c.Lparen).Offset]))
							}
						}
					}
				case *ast.BranchStmt:
					if x.Tok == token.CONTINUE && x.Label == nil {
						emit(x.Pos(), len("continue"), "break", "continue -> break")
					}
				case *ast.UnaryExpr:
					if x.Op == token.NOT {
						emit(x.OpPos, 1, "", "drop !")
					}
				}
				return true
			})
		}
	}
}
