#!/usr/bin/env python3
"""mutsurvey.py [--sample N] [--workers W] [--out FILE] [--only FILE.go] : automatic mutation survey of the correspondence layer.

Enumerates ~2,700 first-order mutants of /repo's non-test sources (tools/mutsurvey/main.go: comparison / boolean /
arithmetic operator swaps, integer and character literals +-1, deleted assignments and Reset / Set / Extend calls,
continue -> break, dropped negations), and for each one builds the session executor against a scratch copy carrying the
mutation and replays a SAMPLE of the sessions the 20 quick checks generate (N evenly spaced sessions per property).
A mutant whose outputs equal the unmodified library's on every sampled session SURVIVES: it is an equivalent mutant,
dead code, or a place the generators do not reach. The list of survivors (JSON lines) is what a human / the next
generator change works from. Development aid only: nothing here is used by a registered check, nothing is written to
/repo, scratch lives under $TMPDIR/mutsurvey.* and is removed at the end.
"""
import argparse, json, os, shutil, subprocess, sys, tempfile, hashlib, concurrent.futures, time

V = os.path.dirname(os.path.dirname(os.path.realpath(__file__)))
REPO = os.environ.get("VERIF_REPO", "/repo")
ENV = dict(os.environ, GOFLAGS="-mod=mod", GOPROXY="off", GOSUMDB="off", GOTOOLCHAIN="local")


def sh(cmd, **kw):
    return subprocess.run(cmd, shell=isinstance(cmd, str), capture_output=True, text=True, env=ENV, **kw)


def main():
    ap = argparse.ArgumentParser()
    ap.add_argument("--sample", type=int, default=40000)
    ap.add_argument("--workers", type=int, default=8)
    ap.add_argument("--out", default=V + "/tools/mutsurvey_survivors.jsonl")
    ap.add_argument("--only", default="")
    ap.add_argument("--limit", type=int, default=0)
    a = ap.parse_args()
    tmp = tempfile.mkdtemp(prefix="mutsurvey.")
    try:
        run(a, tmp)
    finally:
        shutil.rmtree(tmp, ignore_errors=True)


def make_tree(root):
    """scratch copy: sipsp/ (library + executor) and harness/ (replace => ../sipsp)"""
    os.makedirs(root + "/sipsp")
    for fn in os.listdir(REPO):
        if fn.endswith(".go") and not fn.endswith("_test.go"):
            shutil.copy(REPO + "/" + fn, root + "/sipsp/" + fn)
    for fn in ("go.mod", "go.sum"):
        shutil.copy(REPO + "/" + fn, root + "/sipsp/" + fn)
    shutil.copy(V + "/harness/export/zz_verif_exec.go", root + "/sipsp/")
    shutil.copytree(V + "/harness", root + "/harness")
    gm = open(root + "/harness/go.mod").read().replace("=> ../.build/sipsp", "=> ../sipsp")
    open(root + "/harness/go.mod", "w").write(gm)


def run(a, tmp):
    if not os.path.exists(V + "/.build/mutsurvey"):
        r = sh("go build -o %s/.build/mutsurvey ." % V, cwd=V + "/tools/mutsurvey")
        if r.returncode:
            sys.exit(r.stderr)
    muts = [json.loads(l) for l in sh([V + "/.build/mutsurvey", REPO]).stdout.splitlines()]
    if a.only:
        muts = [m for m in muts if m["file"] == a.only]
    if a.limit:
        muts = muts[:: max(1, len(muts) // a.limit)]
    print("mutants:", len(muts), flush=True)
    # ---- sample of the quick checks' sessions
    base = tmp + "/base"
    make_tree(base)
    r = sh("go build -tags verif -o ../harness.bin ./cmd/harness", cwd=base + "/harness")
    if r.returncode:
        sys.exit("baseline build failed: " + r.stderr)
    sample = tmp + "/sample.txt"
    with open(sample, "w") as out:
        for i in range(1, 21):
            p = "C%02d" % i
            d = tmp + "/gen_" + p
            sh([base + "/harness.bin", "check", p, "quick", "1", d])
            n = sum(1 for _ in open(d + "/sessions.txt"))
            step = max(1, n // a.sample)
            with open(d + "/sessions.txt") as f:
                for k, l in enumerate(f):
                    if k % step == 0:
                        out.write(l)
            shutil.rmtree(d)
    nlines = sum(1 for _ in open(sample))
    print("sampled sessions:", nlines, flush=True)
    t0 = time.time()
    ref = subprocess.run([base + "/harness.bin", "run"], stdin=open(sample), capture_output=True).stdout
    refh = hashlib.sha1(ref).hexdigest()
    print("baseline replay: %.1fs" % (time.time() - t0), flush=True)
    # ---- workers
    wdirs = []
    for w in range(a.workers):
        d = "%s/w%d" % (tmp, w)
        make_tree(d)
        wdirs.append(d)
    srcs = {fn: open(REPO + "/" + fn, "rb").read() for fn in set(m["file"] for m in muts)}

    def one(args):
        k, m = args
        d = wdirs[k % a.workers]
        return k, m, d

    results = {"killed": 0, "survived": 0, "invalid": 0, "timeout": 0}
    survivors = []
    # one mutant at a time per worker directory
    import queue, threading
    q = queue.Queue()
    for m in muts:
        q.put(m)
    lock = threading.Lock()

    def worker(d):
        while True:
            try:
                m = q.get_nowait()
            except queue.Empty:
                return
            src = srcs[m["file"]]
            new = src[: m["off"]] + m["repl"].encode() + src[m["off"] + m["len"]:]
            open(d + "/sipsp/" + m["file"], "wb").write(new)
            r = sh("go build -tags verif -o ../harness.bin ./cmd/harness", cwd=d + "/harness")
            verdict = "invalid"
            if r.returncode == 0:
                try:
                    o = subprocess.run("ulimit -v 8000000; GOMAXPROCS=2 exec ./harness.bin run", shell=True, cwd=d, stdin=open(sample),
                                       capture_output=True, timeout=120)
                    verdict = "survived" if (o.returncode == 0 and hashlib.sha1(o.stdout).hexdigest() == refh) else "killed"
                except subprocess.TimeoutExpired:
                    verdict = "timeout"
            open(d + "/sipsp/" + m["file"], "wb").write(src)
            with lock:
                results[verdict] += 1
                if verdict == "survived":
                    survivors.append(m)
                tot = sum(results.values())
                if tot % 50 == 0:
                    print(tot, results, "%.0fs" % (time.time() - t0), flush=True)

    ths = [threading.Thread(target=worker, args=(d,)) for d in wdirs]
    for t in ths:
        t.start()
    for t in ths:
        t.join()
    print("done", results, flush=True)
    survivors.sort(key=lambda m: (m["file"], m["line"], m["off"]))
    with open(a.out, "w") as f:
        for m in survivors:
            f.write(json.dumps(m) + "\n")
    print("survivors written to", a.out)


if __name__ == "__main__":
    main()
