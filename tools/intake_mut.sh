#!/bin/bash
# intake_mut.sh <src-dir> <id> : copies a confirmed seeded change (patch.diff, zz_demo_test.go, why.txt) into
# /verif/seeded/<id>/ and writes meta.json (property, what it needs to manifest, what was run to confirm it).
src=$1; id=$2; prop=${id:0:3}
res=$(/verif/tools/confirm_seeded.sh $src)
echo "$res"
case "$res" in *"apply=ok build=ok suite_with=pass demo_with=fail(good) demo_without=pass(good)"*) ;; *) echo "NOT CONFIRMED: $id"; exit 1;; esac
d=/verif/seeded/$id; mkdir -p $d
cp $src/patch.diff $src/zz_demo_test.go $d/; [ -f $src/why.txt ] && cp $src/why.txt $d/
python3 - "$d" "$id" "$prop" "$res" <<'PY'
import json,sys,re,os
d,id_,prop,res=sys.argv[1:5]
why=open(d+'/why.txt').read() if os.path.exists(d+'/why.txt') else ''
files=sorted(set(re.findall(r'^\+\+\+ b/(\S+)', open(d+'/patch.diff').read(), flags=re.M)))
meta={"id":id_,"property":prop,"files":files,"origin":"independent sub-agent (given only the property text and a scratch worktree)",
 "needs_to_manifest": why.strip(),
 "confirmed_by":"tools/confirm_seeded.sh in a scratch worktree of /repo: patch applies; go build ok; `go test -vet=off -count=1 ./...` passes with the patch; demo test fails with the patch and passes without it",
 "confirmation": res.strip()}
json.dump(meta,open(d+'/meta.json','w'),indent=1)
PY
