#!/bin/bash
# sweep.sh TIER SEED... : unchanged-tree sweep of all 20 checks for several VERIF_SEED values; evidence kept aside.
tier=$1; shift
cd /verif
export VERIF_EVIDENCE=/tmp/evidence.eval.$$   # evidence of these runs is scratch
trap 'rm -rf /tmp/evidence.eval.$$' EXIT
for seed in "$@"; do
  for n in 01 02 03 04 05 06 07 08 09 10 11 12 13 14 15 16 17 18 19 20; do
    out=$(VERIF_SEED=$seed ./check C$n $tier 2>&1); rc=$?
    echo "seed=$seed rc=$rc $(echo "$out" | grep -m1 '^VIOLATION') $(echo "$out" | tail -1)"
  done
done
