#!/usr/bin/env python3
# regenerates /verif/MANIFEST.json from tools/manifest_src.json (texts per property) — keeps it valid
import json,os
props=[json.loads(l) for l in open('/verif/properties.jsonl')]
src=json.load(open('/verif/tools/manifest_src.json'))
checks=[]
for p in props:
    pid=p['id']; s=src['props'].get(pid,{})
    if s.get('not_applicable'): continue
    checks.append({
      "property_id":pid,
      "quick_cmd":"./check %s quick"%pid,
      "thorough_cmd":"./check %s thorough"%pid,
      "evidence_file":"/verif/evidence/%s.json"%pid,
      "replay_cmd_template":"./check --replay {path}",
      "engine":"lean4+diff",
      "level_claimed":{"category":s.get("category","translation_validation"),"text":s.get("text",src["default_text"]),"design_ref":s.get("design_ref","DESIGN.md section 8 "+pid)},
      "level_note":s.get("note",src["default_note"]),
      "technique":s.get("technique",src["default_technique"]),
    })
m={"version":1,"setup_cmd":"./check --setup",
 "hooks":{"guard":"verif","enable":"no source hooks in /repo: the check copies /repo/*.go (non-test) into /verif/.build/sipsp, adds harness/export/zz_verif_exec.go (build tag verif) and builds the harness with `go build -tags verif`","baseline_off_cmd":"cd /repo && GOFLAGS=-mod=mod GOPROXY=off GOSUMDB=off go test -vet=off -count=1 ./...","source_commits":[],"add_only":True},
 "engines":[{"name":"lean4+diff","path":"/verif/check","serves_properties":[c["property_id"] for c in checks],"kind_free_text":"Lean 4 theorems about a hand-written executable model of the library (lean/Sipsp) + correspondence check model vs implementation on generated sessions (harness/) + property oracles on the implementation + regenerated constants/tables (extract/)"}],
 "checks":checks,
 "notes":src["notes"],
 "not_applicable":[{"property_id":k,"reason":v["not_applicable"]} for k,v in src['props'].items() if v.get('not_applicable')]}
json.dump(m,open('/verif/MANIFEST.json','w'),indent=1)
print(len(checks),"checks")
